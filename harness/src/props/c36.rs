//! C36 — Storage reads honour the read contract for every offset and length, and the
//! instructions built on them (LDC modes 0/1/2, CCP, BLDD, CSIZ, BSIZ) copy exactly the specified
//! bytes and zero padding.
use crate::engine::*;
use crate::gens::pick;
use crate::{ensure, ensure_eq};
use fuel_asm::{op, GTFArgs, Instruction, PanicReason, RegId};
use fuel_storage::{Mappable, StorageInspect, StorageRead, StorageReadError, StorageSize, StorageWrite};
use fuel_tx::{ConsensusParameters, Finalizable, GasCosts, Input, Output, Script, TransactionBuilder, TxPointer, UtxoId};
use fuel_types::{BlobId, Bytes32, ContractId};
use fuel_vm::call::CallFrame;
use fuel_vm::checked_transaction::IntoChecked;
use fuel_vm::error::InterpreterError;
use fuel_vm::interpreter::{Interpreter, InterpreterParams, MemoryInstance};
use fuel_vm::state::{ExecuteState, ProgramState};
use fuel_vm::storage::{BlobData, ContractsRawCode, ContractsState, ContractsStateKey, MemoryStorage};
use proptest::prelude::*;
use serde::{Deserialize, Serialize};

const MEM_SIZE: u64 = 1 << 26;

// =================================================================== part 1: the storage traits

#[derive(Debug, Clone, Serialize, Deserialize)]
pub struct ReadCase {
    /// 0 = ContractsRawCode, 1 = ContractsState, 2 = BlobData
    pub table: u8,
    /// stored value; None = the key is missing (neighbouring keys exist)
    pub value: Option<Vec<u8>>,
    pub offset: usize,
    pub buf_len: usize,
    /// byte the buffer is pre-filled with (never 0)
    pub fill: u8,
}

/// deterministic non-zero value bytes, so that a zero is always a *filled* zero
fn pattern(len: usize, salt: u8) -> Vec<u8> {
    (0..len).map(|i| 1 + ((i as u32 * 7 + salt as u32 * 13) % 255) as u8).collect()
}

fn check_reads<T>(st: &MemoryStorage, tname: &str, key: &T::Key, c: &ReadCase, obs: &mut Obs) -> Check
where
    T: Mappable,
    MemoryStorage: StorageRead<T>,
    <MemoryStorage as StorageInspect<T>>::Error: std::fmt::Debug,
{
    let io = |e: <MemoryStorage as StorageInspect<T>>::Error| Failure::new(format!("{tname}:io-error"), format!("{e:?}"));
    let fill = c.fill.max(1);
    // size_of_value / read_alloc
    let size = <MemoryStorage as StorageSize<T>>::size_of_value(st, key).map_err(io)?;
    ensure_eq!(size, c.value.as_ref().map(|v| v.len()), format!("{tname}:size_of_value"), "size_of_value");
    let alloc = st.read_alloc(key).map_err(io)?;
    ensure_eq!(alloc, c.value, format!("{tname}:read_alloc"), "read_alloc");

    // read_exact
    let mut buf = vec![fill; c.buf_len];
    let r = st.read_exact(key, c.offset, &mut buf).map_err(io)?;
    match &c.value {
        None => {
            ensure_eq!(r, Err(StorageReadError::KeyNotFound), format!("{tname}:read_exact:missing-key"), "read_exact on a missing key");
            obs.class("missing-key");
        }
        Some(v) => {
            let l = v.len();
            let within = c.offset.checked_add(c.buf_len).map(|e| e <= l).unwrap_or(false);
            if within {
                ensure_eq!(r, Ok(l), format!("{tname}:read_exact:refused-within"), "read_exact(offset {}, len {}) of a {l}-byte value", c.offset, c.buf_len);
                ensure!(buf[..] == v[c.offset..c.offset + c.buf_len], format!("{tname}:read_exact:bytes"), "read_exact(offset {}, len {}) copied wrong bytes", c.offset, c.buf_len);
                obs.class("exact-ok");
            } else {
                ensure!(
                    r == Err(StorageReadError::OutOfBounds),
                    format!("{tname}:read_exact:accepted-beyond"),
                    "read_exact(offset {}, len {}) of a {l}-byte value returned {r:?}, want OutOfBounds", c.offset, c.buf_len
                );
                obs.class("exact-refused");
            }
        }
    }

    // read_zerofill
    let mut buf = vec![fill; c.buf_len];
    let r = st.read_zerofill(key, c.offset, &mut buf).map_err(io)?;
    match &c.value {
        None => {
            ensure_eq!(r, Err(StorageReadError::KeyNotFound), format!("{tname}:read_zerofill:missing-key"), "read_zerofill on a missing key");
        }
        Some(v) => {
            let l = v.len();
            if c.offset <= l {
                ensure_eq!(r, Ok(l), format!("{tname}:read_zerofill:refused-within"), "read_zerofill(offset {}, len {}) of a {l}-byte value", c.offset, c.buf_len);
                let avail = (l - c.offset).min(c.buf_len);
                ensure!(buf[..avail] == v[c.offset..c.offset + avail], format!("{tname}:read_zerofill:bytes"), "read_zerofill(offset {}, len {}) copied wrong bytes", c.offset, c.buf_len);
                ensure!(buf[avail..].iter().all(|b| *b == 0), format!("{tname}:read_zerofill:not-zero-filled"), "read_zerofill(offset {}, len {}) of a {l}-byte value left non-zero bytes after +{avail}", c.offset, c.buf_len);
                if c.offset == l {
                    obs.class("zerofill-offset==len");
                }
                if c.offset + c.buf_len > l {
                    obs.class("zerofill-crossing-end");
                }
            } else {
                // "failing only when the offset is beyond the value": a refusal is fine, and so
                // would be an all-zero success; anything else is not
                match r {
                    Err(StorageReadError::OutOfBounds) => obs.class("zerofill-offset>len:refused"),
                    Ok(n) => {
                        ensure_eq!(n, l, format!("{tname}:read_zerofill:beyond:length"), "length returned for offset beyond the value");
                        ensure!(buf.iter().all(|b| *b == 0), format!("{tname}:read_zerofill:beyond:not-zero"), "offset beyond the value accepted but buffer not zero");
                        obs.class("zerofill-offset>len:zeros");
                    }
                    Err(e) => return Err(Failure::new(format!("{tname}:read_zerofill:beyond:reason"), format!("offset beyond the value refused with {e:?}"))),
                }
            }
        }
    }
    if let Some(v) = &c.value {
        let l = v.len();
        if c.offset == l || c.offset > l || c.offset.checked_add(c.buf_len).map(|e| e > l).unwrap_or(true) {
            obs.nontrivial(&(c.table, l, c.offset.min(l + 2), c.offset == usize::MAX, c.buf_len));
        }
    }
    Ok(())
}

fn run_read(c: &ReadCase, obs: &mut Obs) -> Check {
    let mut st = MemoryStorage::default();
    let id = [0x5au8; 32];
    let mut near = id;
    near[31] ^= 1;
    let mut near2 = id;
    near2[0] ^= 0x80;
    let decoy = pattern(c.value.as_ref().map(|v| v.len() + 3).unwrap_or(5), 0xEE);
    let werr = |e: core::convert::Infallible| Failure::new("harness-storage", format!("{e:?}"));
    match c.table {
        0 => {
            let key = ContractId::from(id);
            StorageWrite::<ContractsRawCode>::write_bytes(&mut st, &ContractId::from(near), &decoy).map_err(werr)?;
            StorageWrite::<ContractsRawCode>::write_bytes(&mut st, &ContractId::from(near2), &decoy).map_err(werr)?;
            // same id in the other tables must not be visible here
            StorageWrite::<BlobData>::write_bytes(&mut st, &BlobId::from(id), &decoy).map_err(werr)?;
            if let Some(v) = &c.value {
                StorageWrite::<ContractsRawCode>::write_bytes(&mut st, &key, v).map_err(werr)?;
            }
            check_reads::<ContractsRawCode>(&st, "ContractsRawCode", &key, c, obs)
        }
        1 => {
            let cid = ContractId::from(id);
            let slot = Bytes32::from(near);
            let key = ContractsStateKey::new(&cid, &slot);
            StorageWrite::<ContractsState>::write_bytes(&mut st, &ContractsStateKey::new(&cid, &Bytes32::from(near2)), &decoy).map_err(werr)?;
            StorageWrite::<ContractsState>::write_bytes(&mut st, &ContractsStateKey::new(&ContractId::from(near2), &slot), &decoy).map_err(werr)?;
            StorageWrite::<ContractsRawCode>::write_bytes(&mut st, &cid, &decoy).map_err(werr)?;
            if let Some(v) = &c.value {
                StorageWrite::<ContractsState>::write_bytes(&mut st, &key, v).map_err(werr)?;
            }
            check_reads::<ContractsState>(&st, "ContractsState", &key, c, obs)
        }
        2 => {
            let key = BlobId::from(id);
            StorageWrite::<BlobData>::write_bytes(&mut st, &BlobId::from(near), &decoy).map_err(werr)?;
            StorageWrite::<ContractsRawCode>::write_bytes(&mut st, &ContractId::from(id), &decoy).map_err(werr)?;
            if let Some(v) = &c.value {
                StorageWrite::<BlobData>::write_bytes(&mut st, &key, v).map_err(werr)?;
            }
            check_reads::<BlobData>(&st, "BlobData", &key, c, obs)
        }
        _ => Err(Failure::new("harness-case", "table")),
    }
}

const LATTICE_L: [usize; 10] = [0, 1, 7, 8, 9, 31, 32, 33, 100, 1000];

fn lattice_offsets(l: usize) -> Vec<usize> {
    let mut v = vec![0, 1, l.saturating_sub(1), l, l + 1, 2 * l, 2 * l + 1, usize::MAX - l, usize::MAX - 1, usize::MAX, u32::MAX as usize, u32::MAX as usize + 1];
    v.sort();
    v.dedup();
    v
}

fn lattice_bufs(l: usize, off: usize) -> Vec<usize> {
    let rest = l.saturating_sub(off.min(l));
    let mut v = vec![0, 1, rest.saturating_sub(1), rest, rest + 1, l, l + 1, 2 * l, 8, 9];
    v.sort();
    v.dedup();
    v
}

fn enum_reads(_ctx: &Ctx, shard: usize, nshards: usize, sink: &mut dyn FnMut(ReadCase) -> bool) {
    let mut i = 0usize;
    for table in 0u8..3 {
        for l in LATTICE_L {
            for off in lattice_offsets(l) {
                for b in lattice_bufs(l, off) {
                    for present in [true, false] {
                        i += 1;
                        if i % nshards != shard {
                            continue;
                        }
                        let c = ReadCase { table, value: present.then(|| pattern(l, table)), offset: off, buf_len: b, fill: 0xA5 };
                        if !sink(c) {
                            return;
                        }
                    }
                }
            }
        }
    }
}

fn read_case() -> impl Strategy<Value = ReadCase> {
    let len = prop_oneof![
        3 => 0usize..=40,
        2 => prop::sample::select(vec![0usize, 1, 7, 8, 9, 31, 32, 33, 63, 64, 65, 255, 256, 257, 1000]),
        1 => 0usize..3000,
    ];
    (0u8..3, len, any::<u8>(), any::<bool>(), any::<u16>(), any::<u16>(), 0u8..12, 0u8..10, 1u8..=255).prop_map(|(table, l, salt, zeros, osel, bsel, okind, bkind, fill)| {
        let mut value = pattern(l, salt);
        if zeros {
            // values with embedded zeros as well
            for (i, b) in value.iter_mut().enumerate() {
                if i % 3 == (salt as usize % 3) {
                    *b = 0;
                }
            }
        }
        let offset = match okind {
            0 => 0,
            1 => l,
            2 => l + 1,
            3 => l.saturating_sub(1),
            4 => usize::MAX,
            5 => usize::MAX - pick(osel, l + 2),
            6 => 2 * l,
            7 => l + pick(osel, 70),
            _ => pick(osel, l + 1),
        };
        let rest = l.saturating_sub(offset.min(l));
        let buf_len = match bkind {
            0 => 0,
            1 => rest,
            2 => rest + 1,
            3 => rest.saturating_sub(1),
            4 => l,
            5 => 2 * l + 1,
            _ => pick(bsel, rest + 12),
        };
        ReadCase { table, value: (okind != 11 || bkind < 5).then_some(value), offset, buf_len, fill }
    })
}

// =================================================================== part 2: the instructions

#[derive(Debug, Clone, Copy, Serialize, Deserialize, PartialEq, Eq, Hash)]
pub enum Kind {
    Ldc0,
    Ldc1,
    Ldc2,
    /// LDC with an immediate >= 3
    LdcBadMode(u8),
    Ccp,
    Bldd,
    Csiz,
    Bsiz,
}

#[derive(Debug, Clone, Copy, Serialize, Deserialize, PartialEq, Eq, Hash)]
pub enum Target {
    /// deployed and (contracts) listed in the inputs
    Present,
    /// contract deployed but not among the inputs / blob not in storage
    Absent,
}

#[derive(Debug, Clone, Copy, Serialize, Deserialize, PartialEq, Eq, Hash)]
pub enum IdLoc {
    Heap,
    /// MEM_SIZE - 31: the 32 bytes cross the end of memory
    High,
    /// unallocated gap
    Gap,
}

#[derive(Debug, Clone, Copy, Serialize, Deserialize, PartialEq, Eq, Hash)]
pub enum Dst {
    /// freshly allocated heap buffer with guard bytes
    Heap,
    /// freshly extended stack frame with guard bytes
    Stack,
    /// address 32 (VM-initialised region below $ssp): accessible, not owned
    Unowned,
    /// $sp + 4096: not accessible
    Gap,
    /// so that dst + len == MEM_SIZE + 1
    High,
}

#[derive(Debug, Clone, Serialize, Deserialize)]
pub struct InstrCase {
    pub kind: Kind,
    /// the stored contract code / blob (also the memory source of LDC mode 2)
    pub value: Vec<u8>,
    pub target: Target,
    pub offset: u64,
    pub len: u64,
    pub id_loc: IdLoc,
    pub dst: Dst,
    /// execute inside a called contract (internal context) instead of the script
    pub internal: bool,
    /// LDC: extend the stack first so that $ssp != $sp
    pub dirty_stack: bool,
    /// stack above $ssp was used (filled with 0xFF) and released before the instruction
    #[serde(default)]
    pub stale_stack: bool,
}

type Vm = Interpreter<MemoryInstance, MemoryStorage, Script>;

fn r(id: RegId) -> usize {
    id.to_u8() as usize
}

fn pad8(x: u64) -> Option<u64> {
    x.checked_add(7).map(|v| v & !7)
}

const TARGET_ID: [u8; 32] = [0xC7; 32];
const CALLEE_ID: [u8; 32] = [0xCA; 32];
const UNLISTED_ID: [u8; 32] = [0x0E; 32];
const GUARD: u8 = 0xA5;

/// expected slice `value[offset..][..len]` zero-extended to `len`
fn zero_ext(value: &[u8], offset: u64, len: usize) -> Vec<u8> {
    let mut out = vec![0u8; len];
    if offset < value.len() as u64 {
        let o = offset as usize;
        let n = (value.len() - o).min(len);
        out[..n].copy_from_slice(&value[o..o + n]);
    }
    out
}

fn run_instr(c: &InstrCase, obs: &mut Obs) -> Check {
    let h = |what: &str, e: String| Failure::new("harness-vm", format!("{what}: {e}"));
    let werr = |e: core::convert::Infallible| Failure::new("harness-storage", format!("{e:?}"));
    let is_blob = matches!(c.kind, Kind::Ldc1 | Kind::Bldd | Kind::Bsiz);
    let is_ldc = matches!(c.kind, Kind::Ldc0 | Kind::Ldc1 | Kind::Ldc2 | Kind::LdcBadMode(_));
    ensure!(c.value.len() <= 20_000, "harness-case", "value too long");

    // ---- world
    let mut params = ConsensusParameters::standard();
    params.set_gas_costs(GasCosts::free());
    let contract_max_size = params.contract_params().contract_max_size();
    let mut st = MemoryStorage::default();
    let callee_code: Vec<u8> = vec![op::noop(), op::ret(RegId::ONE)].into_iter().collect();
    StorageWrite::<ContractsRawCode>::write_bytes(&mut st, &ContractId::from(CALLEE_ID), &callee_code).map_err(werr)?;
    // decoys under the same id in the *other* table
    let decoy = pattern(c.value.len() + 5, 0xDD);
    let id: [u8; 32] = if is_blob {
        StorageWrite::<ContractsRawCode>::write_bytes(&mut st, &ContractId::from(UNLISTED_ID), &decoy).map_err(werr)?;
        StorageWrite::<ContractsRawCode>::write_bytes(&mut st, &ContractId::from(TARGET_ID), &decoy).map_err(werr)?;
        if c.target == Target::Present {
            StorageWrite::<BlobData>::write_bytes(&mut st, &BlobId::from(TARGET_ID), &c.value).map_err(werr)?;
        }
        TARGET_ID
    } else {
        StorageWrite::<BlobData>::write_bytes(&mut st, &BlobId::from(TARGET_ID), &decoy).map_err(werr)?;
        StorageWrite::<BlobData>::write_bytes(&mut st, &BlobId::from(UNLISTED_ID), &decoy).map_err(werr)?;
        StorageWrite::<ContractsRawCode>::write_bytes(&mut st, &ContractId::from(TARGET_ID), &c.value).map_err(werr)?;
        StorageWrite::<ContractsRawCode>::write_bytes(&mut st, &ContractId::from(UNLISTED_ID), &c.value).map_err(werr)?;
        if c.target == Target::Present { TARGET_ID } else { UNLISTED_ID }
    };

    let script: Vec<u8> = if c.internal {
        vec![op::gtf_args(0x10, 0x00, GTFArgs::ScriptData), op::call(0x10, RegId::ZERO, RegId::ZERO, RegId::CGAS), op::ret(RegId::ONE)]
    } else {
        vec![op::noop(), op::ret(RegId::ONE)]
    }
    .into_iter()
    .collect();
    let mut script_data = CALLEE_ID.to_vec();
    script_data.extend([0u8; 16]);
    let mut b = TransactionBuilder::script(script, script_data);
    b.script_gas_limit(1_000_000);
    for (i, cid) in [TARGET_ID, CALLEE_ID].iter().enumerate() {
        b.add_input(Input::contract(UtxoId::new(Bytes32::from([i as u8 + 1; 32]), 0), Bytes32::zeroed(), Bytes32::zeroed(), TxPointer::default(), ContractId::from(*cid)));
        b.add_output(Output::contract(i as u16, Bytes32::zeroed(), Bytes32::zeroed()));
    }
    b.add_fee_input();
    let tx = b.finalize().into_checked(Default::default(), &params).map_err(|e| h("check", format!("{e:?}")))?;
    let ready = tx.into_ready(0, params.gas_costs(), params.fee_params(), None).map_err(|e| h("ready", format!("{e:?}")))?;
    let mut vm: Vm = Interpreter::with_storage(MemoryInstance::new(), st, InterpreterParams::new(0, &params));
    vm.set_single_stepping(true);
    let mut state = vm.transact(ready).map(|s| *s.state()).map_err(|e| h("transact", format!("{e:?}")))?;
    let mut steps = 0;
    while c.internal && vm.registers()[r(RegId::FP)] == 0 {
        ensure!(matches!(state, ProgramState::RunProgram(_)) && steps < 8, "harness-vm", "callee not reached: {state:?}");
        state = vm.resume().map_err(|e| h("resume", format!("{e:?}")))?;
        steps += 1;
    }
    ensure!(matches!(state, ProgramState::RunProgram(_)), "harness-vm", "not suspended: {state:?}");
    ensure_eq!(vm.context().is_internal(), c.internal, "harness-vm", "context");
    // from here on instructions are fed one by one; the debugger must not swallow them
    vm.set_single_stepping(false);

    // ---- plant operands
    let run = |vm: &mut Vm, i: Instruction, what: &str| -> Check {
        match vm.instruction::<_, false>(i) {
            Ok(ExecuteState::Proceed) => Ok(()),
            other => Err(Failure::new("harness-vm", format!("{what}: {other:?}"))),
        }
    };
    // heap: [hp .. hp+32) id, then (CCP/BLDD heap dst or LDC2 source) a guarded buffer
    let buf_len = c.len.min(8192) as usize;
    let src_len = c.value.len();
    let heap_need = 32 + 8 + buf_len.max(src_len) + 16;
    vm.registers_mut()[0x15] = heap_need as u64;
    run(&mut vm, op::aloc(0x15), "aloc")?;
    let hp0 = vm.registers()[r(RegId::HP)];
    let id_addr = match c.id_loc {
        IdLoc::Heap => hp0,
        IdLoc::High => MEM_SIZE - 31,
        IdLoc::Gap => hp0 - 4096,
    };
    let heap_buf = hp0 + 40;
    {
        let m = vm.memory_mut();
        m.write_noownerchecks(hp0, 32u64).map_err(|e| h("plant id", format!("{e:?}")))?.copy_from_slice(&id);
        m.write_noownerchecks(hp0 + 32, (heap_need - 32) as u64).map_err(|e| h("plant guard", format!("{e:?}")))?.fill(GUARD);
        if c.kind == Kind::Ldc2 {
            m.write_noownerchecks(heap_buf, src_len as u64).map_err(|e| h("plant src", format!("{e:?}")))?.copy_from_slice(&c.value);
        }
    }
    if c.stale_stack && is_ldc {
        // use and release the stack region LDC is going to load into: its bytes are stale, not zero
        let n = ((c.len.min(8192) + 7) / 8 * 8 + 64) as u32;
        let sp = vm.registers()[r(RegId::SP)];
        run(&mut vm, op::cfei(n), "cfei-stale")?;
        vm.memory_mut().write_noownerchecks(sp, n as u64).map_err(|e| h("plant stale stack", format!("{e:?}")))?.fill(0xFF);
        run(&mut vm, op::cfsi(n), "cfsi-stale")?;
        obs.class("ldc-over-stale-stack");
    }
    if c.dirty_stack && is_ldc {
        run(&mut vm, op::cfei(16), "cfei")?;
    }
    let mut dst_addr = 0u64;
    if matches!(c.kind, Kind::Ccp | Kind::Bldd) {
        dst_addr = match c.dst {
            Dst::Heap => heap_buf,
            Dst::Stack => {
                let sp = vm.registers()[r(RegId::SP)];
                run(&mut vm, op::cfei((buf_len + 24) as u32), "cfei")?;
                vm.memory_mut().write_noownerchecks(sp, (buf_len + 24) as u64).map_err(|e| h("plant stack guard", format!("{e:?}")))?.fill(GUARD);
                sp + 8
            }
            Dst::Unowned => 32,
            Dst::Gap => vm.registers()[r(RegId::SP)] + 4096,
            Dst::High => (MEM_SIZE + 1).saturating_sub(c.len.min(MEM_SIZE + 1)),
        };
    }

    let (ssp, sp, hp, fp) = {
        let g = vm.registers();
        (g[r(RegId::SSP)], g[r(RegId::SP)], g[r(RegId::HP)], g[r(RegId::FP)])
    };
    let accessible = |a: u64, n: u64, stack_end: u64| -> Option<PanicReason> {
        if a > MEM_SIZE || n > MEM_SIZE || a + n > MEM_SIZE {
            Some(PanicReason::MemoryOverflow)
        } else if a + n <= stack_end || a >= hp {
            None
        } else {
            Some(PanicReason::UninitalizedMemoryAccess)
        }
    };
    let owned = |a: u64, n: u64| -> bool {
        // prev_hp: MEM_SIZE in the script, the caller's $hp (MEM_SIZE here, the script allocated nothing) in the callee
        (ssp <= a && a < sp && a + n <= sp) || (a >= hp && a + n <= MEM_SIZE)
    };

    // ---- the instruction and its specification
    let (ins, regs): (Instruction, [u64; 4]) = match c.kind {
        Kind::Ldc0 => (op::ldc(0x10, 0x11, 0x12, 0), [id_addr, c.offset, c.len, 0]),
        Kind::Ldc1 => (op::ldc(0x10, 0x11, 0x12, 1), [id_addr, c.offset, c.len, 0]),
        Kind::Ldc2 => (op::ldc(0x10, 0x11, 0x12, 2), [heap_buf, c.offset, c.len, 0]),
        Kind::LdcBadMode(m) => (op::ldc(0x10, 0x11, 0x12, 3 + (m % 61)), [id_addr, c.offset, c.len, 0]),
        Kind::Ccp => (op::ccp(0x10, 0x11, 0x12, 0x13), [dst_addr, id_addr, c.offset, c.len]),
        Kind::Bldd => (op::bldd(0x10, 0x11, 0x12, 0x13), [dst_addr, id_addr, c.offset, c.len]),
        Kind::Csiz => (op::csiz(0x10, 0x11), [0xdead, id_addr, 0, 0]),
        Kind::Bsiz => (op::bsiz(0x10, 0x11), [0xdead, id_addr, 0, 0]),
    };
    let mut viol: Vec<PanicReason> = vec![];
    let mut dont_care = false;
    let id_bad = accessible(id_addr, 32, sp);
    let absent = c.target == Target::Absent;
    let not_found = if is_blob { PanicReason::BlobNotFound } else { PanicReason::ContractNotInInputs };
    let padded = pad8(c.len);
    match c.kind {
        Kind::Csiz | Kind::Bsiz => {
            viol.extend(id_bad);
            if absent {
                viol.push(not_found);
            }
        }
        Kind::Ccp | Kind::Bldd => {
            viol.extend(id_bad);
            if absent {
                viol.push(not_found);
            }
            if c.len == 0 && !matches!(c.dst, Dst::Heap | Dst::Stack) {
                // accessibility/ownership of an empty range outside the owned buffers
                dont_care = true;
            } else if let Some(e) = accessible(dst_addr, c.len, sp) {
                viol.push(e);
            } else if c.len == 0 && !owned(dst_addr, 0) {
                // ownership of an empty destination: convention outside the statement
                dont_care = true;
            } else if !owned(dst_addr, c.len) {
                viol.push(PanicReason::MemoryOwnership);
            }
        }
        Kind::LdcBadMode(_) => viol.push(PanicReason::InvalidImmediateValue),
        Kind::Ldc0 | Kind::Ldc1 | Kind::Ldc2 => {
            if ssp != sp {
                viol.push(PanicReason::ExpectedUnallocatedStack);
            }
            if c.kind != Kind::Ldc2 {
                viol.extend(id_bad);
                if absent {
                    viol.push(not_found);
                }
            }
            if !(c.kind == Kind::Ldc2 && c.len == 0) {
                match padded {
                    None => viol.push(PanicReason::MemoryOverflow),
                    Some(p) => {
                        if c.kind == Kind::Ldc0 && p > contract_max_size {
                            viol.push(PanicReason::ContractMaxSize);
                        }
                        match ssp.checked_add(p) {
                            None => viol.push(PanicReason::MemoryOverflow),
                            Some(e) if e > MEM_SIZE => viol.push(PanicReason::MemoryOverflow),
                            Some(e) if e > hp => viol.push(PanicReason::MemoryGrowthOverlap),
                            Some(e) => {
                                if c.kind == Kind::Ldc2 {
                                    // source = mem[$rA + $rB, $rC]
                                    match heap_buf.checked_add(c.offset) {
                                        None => viol.push(PanicReason::MemoryOverflow),
                                        Some(s) => viol.extend(accessible(s, c.len, e)),
                                    }
                                }
                            }
                        }
                    }
                }
            }
        }
    }

    // ---- execute
    {
        let g = vm.registers_mut();
        g[0x10] = regs[0];
        g[0x11] = regs[1];
        g[0x12] = regs[2];
        g[0x13] = regs[3];
    }
    let regs_before: Vec<u64> = vm.registers().to_vec();
    let mem_before = vm.memory().clone();
    let receipts_before = vm.receipts().len();
    let res = vm.instruction::<_, false>(ins);
    let got: Result<(), PanicReason> = match res {
        Ok(ExecuteState::Proceed) => Ok(()),
        Ok(other) => return Err(Failure::new("harness-vm", format!("{ins:?} did not proceed: {other:?}"))),
        Err(InterpreterError::PanicInstruction(pi)) => Err(*pi.reason()),
        Err(e) => return Err(Failure::new("instr:error", format!("{ins:?} failed with {e:?}"))),
    };
    let kname = match c.kind {
        Kind::Ldc0 => "ldc0",
        Kind::Ldc1 => "ldc1",
        Kind::Ldc2 => "ldc2",
        Kind::LdcBadMode(_) => "ldc-bad-mode",
        Kind::Ccp => "ccp",
        Kind::Bldd => "bldd",
        Kind::Csiz => "csiz",
        Kind::Bsiz => "bsiz",
    };
    obs.class(kname);
    if dont_care {
        obs.note("dont-care:empty-destination-ownership", 1);
        return Ok(());
    }
    let ctxmsg = format!("{ins:?} regs {regs:?} L={} ssp={ssp} sp={sp} hp={hp} fp={fp}", c.value.len());
    match got {
        Err(e) => {
            obs.class(&format!("{kname}:panic"));
            ensure!(viol.contains(&e), format!("{kname}:unexpected-panic"), "panicked with {e:?}, admissible {viol:?}; {ctxmsg}");
            return Ok(());
        }
        Ok(()) => {
            ensure!(viol.is_empty(), format!("{kname}:accepted"), "succeeded although {viol:?}; {ctxmsg}");
        }
    }
    obs.class(&format!("{kname}:ok"));

    // ---- effects
    let mut pending: Option<Failure> = None;
    let after = vm.registers().to_vec();
    let mut changed_regs_ok: Vec<usize> = vec![r(RegId::PC)];
    let mut touched: Vec<(u64, u64)> = vec![]; // memory ranges allowed to differ
    ensure_eq!(after[r(RegId::PC)], regs_before[r(RegId::PC)] + 4, format!("{kname}:pc"), "$pc; {ctxmsg}");
    match c.kind {
        Kind::Csiz | Kind::Bsiz => {
            changed_regs_ok.push(0x10);
            ensure_eq!(after[0x10], c.value.len() as u64, format!("{kname}:size"), "size register; {ctxmsg}");
        }
        Kind::Ccp | Kind::Bldd => {
            let n = c.len as usize;
            let want = zero_ext(&c.value, c.offset, n);
            let g = vm.memory().read(dst_addr, c.len).map_err(|e| Failure::new(format!("{kname}:dst-unreadable"), format!("{e:?}")))?;
            if g != &want[..] {
                let i = g.iter().zip(want.iter()).position(|(a, b)| a != b).unwrap_or(0);
                return Err(Failure::new(format!("{kname}:bytes"), format!("dst+{i}: got {} want {}; {ctxmsg}", g[i], want[i])));
            }
            touched.push((dst_addr, c.len));
            if c.offset >= c.value.len() as u64 || c.offset.saturating_add(c.len) > c.value.len() as u64 {
                obs.nontrivial(&(kname, c.value.len(), c.offset.min(c.value.len() as u64 + 2), c.len, c.internal, c.dst));
            }
        }
        Kind::Ldc0 | Kind::Ldc1 | Kind::Ldc2 => {
            let p = if c.kind == Kind::Ldc2 && c.len == 0 { 0 } else { padded.unwrap_or(0) };
            changed_regs_ok.push(r(RegId::SSP));
            changed_regs_ok.push(r(RegId::SP));
            ensure_eq!(after[r(RegId::SSP)], ssp + p, format!("{kname}:ssp"), "$ssp after loading {} bytes; {ctxmsg}", c.len);
            ensure_eq!(after[r(RegId::SP)], ssp + p, format!("{kname}:sp"), "$sp after loading {} bytes; {ctxmsg}", c.len);
            if p > 0 {
                let n = c.len as usize;
                let want = if c.kind == Kind::Ldc2 {
                    // source is memory: mem[$rA + $rB, $rC] as it was before
                    mem_before.read(heap_buf + c.offset, c.len).map_err(|e| h("ldc2 source", format!("{e:?}")))?.to_vec()
                } else {
                    zero_ext(&c.value, c.offset, n)
                };
                let g = vm.memory().read(ssp, p).map_err(|e| Failure::new(format!("{kname}:code-unreadable"), format!("{e:?}")))?;
                if g[..n] != want[..] {
                    let i = g.iter().zip(want.iter()).position(|(a, b)| a != b).unwrap_or(0);
                    return Err(Failure::new(format!("{kname}:bytes"), format!("code+{i}: got {} want {}; {ctxmsg}", g[i], want[i])));
                }
                if let Some(i) = g[n..].iter().position(|b| *b != 0) {
                    // is it the continuation of the source?
                    let cont = if c.kind == Kind::Ldc2 {
                        mem_before.read(heap_buf + c.offset, p).map(|s| s.to_vec()).unwrap_or_default()
                    } else {
                        zero_ext(&c.value, c.offset, p as usize)
                    };
                    let from_source = g[..] == cont[..];
                    let key = if from_source { format!("{kname}:padding-copied-from-source") } else { format!("{kname}:padding-not-zero") };
                    pending = Some(Failure::new(
                        key,
                        format!("padding byte +{} after the {} requested bytes is {} (must be zero); {ctxmsg}", n + i, c.len, g[n + i]),
                    ));
                }
                touched.push((ssp, p));
                if c.len % 8 != 0 {
                    obs.class(&format!("{kname}:unaligned-len"));
                    if c.offset.saturating_add(c.len) < c.value.len() as u64 {
                        obs.class(&format!("{kname}:unaligned-len-inside-value"));
                    }
                }
                if c.offset >= c.value.len() as u64 || c.offset.saturating_add(c.len) > c.value.len() as u64 || c.len % 8 != 0 {
                    obs.nontrivial(&(kname, c.value.len(), c.offset.min(c.value.len() as u64 + 2), c.len, c.internal));
                }
            }
            if c.internal {
                let ptr = fp + CallFrame::code_size_offset() as u64;
                let old = u64::from_be_bytes(mem_before.read_bytes::<_, 8>(ptr).map_err(|e| h("code size", format!("{e:?}")))?);
                let new = u64::from_be_bytes(vm.memory().read_bytes::<_, 8>(ptr).map_err(|e| h("code size", format!("{e:?}")))?);
                ensure_eq!(new, pad8(old).unwrap_or(0) + p, format!("{kname}:frame-code-size"), "frame code size word (was {old}); {ctxmsg}");
                touched.push((ptr, 8));
                obs.class(&format!("{kname}:internal"));
            }
        }
        Kind::LdcBadMode(_) => {}
    }
    // nothing else changes: registers
    for (i, (a, b)) in regs_before.iter().zip(after.iter()).enumerate() {
        if !changed_regs_ok.contains(&i) {
            ensure_eq!(b, a, format!("{kname}:register-changed"), "register {i}; {ctxmsg}");
        }
    }
    ensure_eq!(vm.receipts().len(), receipts_before, format!("{kname}:receipt"), "receipts");
    // nothing else changes: memory that was accessible before
    let in_touched = |a: u64| touched.iter().any(|(s, n)| a >= *s && a < s + n);
    let old_stack = mem_before.stack_raw();
    let now = vm.memory();
    let new_stack = now.read(0u64, old_stack.len() as u64).map_err(|e| Failure::new(format!("{kname}:stack-shrunk"), format!("{e:?}")))?;
    for (i, (a, b)) in old_stack.iter().zip(new_stack.iter()).enumerate() {
        if a != b && !in_touched(i as u64) {
            return Err(Failure::new(format!("{kname}:memory-changed"), format!("stack byte {i}: {a} -> {b}; {ctxmsg}")));
        }
    }
    let old_heap = mem_before.read(hp, MEM_SIZE - hp).map_err(|e| h("heap", format!("{e:?}")))?;
    let new_heap = now.read(hp, MEM_SIZE - hp).map_err(|e| Failure::new(format!("{kname}:heap-unreadable"), format!("{e:?}")))?;
    for (i, (a, b)) in old_heap.iter().zip(new_heap.iter()).enumerate() {
        if a != b && !in_touched(hp + i as u64) {
            return Err(Failure::new(format!("{kname}:memory-changed"), format!("heap byte {}: {a} -> {b}; {ctxmsg}", hp + i as u64)));
        }
    }
    // stack extent: only LDC may extend it
    // (a stack that was used and released before keeps its old extent)
    let old_extent = mem_before.stack_raw().len() as u64;
    let want_extent = (if is_ldc { after[r(RegId::SP)] } else { sp }).max(old_extent);
    ensure!(now.verify(want_extent, 1u64).is_err() || want_extent >= hp, format!("{kname}:stack-extent"), "stack extent grew beyond {want_extent}; {ctxmsg}");
    // storage untouched
    {
        let st: &MemoryStorage = vm.as_ref();
        let v = if is_blob || c.kind == Kind::Ldc2 {
            StorageRead::<BlobData>::read_alloc(st, &BlobId::from(TARGET_ID)).map_err(werr)?
        } else {
            StorageRead::<ContractsRawCode>::read_alloc(st, &ContractId::from(TARGET_ID)).map_err(werr)?
        };
        let want = if is_blob { (c.target == Target::Present).then(|| c.value.clone()) } else if c.kind == Kind::Ldc2 { Some(decoy.clone()) } else { Some(c.value.clone()) };
        ensure_eq!(v, want, format!("{kname}:storage-changed"), "stored value after the instruction");
    }
    match pending {
        Some(f) => Err(f),
        None => Ok(()),
    }
}

fn value_strategy() -> impl Strategy<Value = Vec<u8>> {
    let len = prop_oneof![
        3 => prop::sample::select(vec![0usize, 1, 7, 8, 9, 31, 32, 33, 100, 1000]),
        2 => 0usize..=70,
        1 => 0usize..2500,
    ];
    (len, any::<u8>()).prop_map(|(l, s)| pattern(l, s))
}

fn offset_strategy(l: usize) -> impl Strategy<Value = u64> {
    let l = l as u64;
    prop_oneof![
        4 => Just(0u64),
        5 => prop::sample::select(vec![1u64, l.saturating_sub(1), l, l + 1, 2 * l, l.saturating_sub(8), l.saturating_sub(7), l / 2]),
        2 => 0..=l + 10,
        1 => prop::sample::select(vec![u32::MAX as u64, u32::MAX as u64 + 1, MEM_SIZE, u64::MAX - 1, u64::MAX]),
    ]
}

fn len_strategy(l: usize, off: u64) -> impl Strategy<Value = u64> {
    let l = l as u64;
    let rest = l.saturating_sub(off.min(l));
    prop_oneof![
        6 => prop::sample::select(vec![0u64, 1, 7, 8, 9, 15, 16, 17, rest.saturating_sub(1), rest, rest + 1, l, l + 1, 2 * l, rest.saturating_sub(9), rest / 2, (rest / 2) | 1]),
        3 => 0..=l + 20,
        1 => prop::sample::select(vec![4096u64, 8192, 8193, 100_000, 102_400, 102_401, MEM_SIZE - 1, MEM_SIZE, MEM_SIZE + 1, u64::MAX - 7, u64::MAX - 6, u64::MAX]),
    ]
}

fn instr_case() -> impl Strategy<Value = InstrCase> {
    let kind = prop_oneof![
        4 => Just(Kind::Ldc0),
        3 => Just(Kind::Ldc1),
        3 => Just(Kind::Ldc2),
        1 => any::<u8>().prop_map(Kind::LdcBadMode),
        4 => Just(Kind::Ccp),
        4 => Just(Kind::Bldd),
        1 => Just(Kind::Csiz),
        1 => Just(Kind::Bsiz),
    ];
    (kind, value_strategy())
        .prop_flat_map(|(kind, value)| {
            let l = value.len();
            (Just(kind), Just(value), offset_strategy(l))
        })
        .prop_flat_map(|(kind, value, offset)| {
            let l = value.len();
            (
                Just(kind),
                Just(value),
                Just(offset),
                len_strategy(l, offset),
                prop_oneof![9 => Just(Target::Present), 1 => Just(Target::Absent)],
                prop_oneof![12 => Just(IdLoc::Heap), 1 => Just(IdLoc::High), 1 => Just(IdLoc::Gap)],
                prop_oneof![5 => Just(Dst::Heap), 4 => Just(Dst::Stack), 1 => Just(Dst::Unowned), 1 => Just(Dst::Gap), 1 => Just(Dst::High)],
                any::<bool>(),
                prop_oneof![12 => Just(false), 1 => Just(true)],
                prop_oneof![2 => Just(false), 1 => Just(true)],
            )
        })
        .prop_map(|(kind, value, offset, len, target, id_loc, dst, internal, dirty_stack, stale_stack)| InstrCase { kind, value, target, offset, len, id_loc, dst, internal, dirty_stack, stale_stack })
}

/// exhaustive (L, offset, len) lattice for the five copying instructions, valid operands otherwise
fn enum_instr(_ctx: &Ctx, shard: usize, nshards: usize, sink: &mut dyn FnMut(InstrCase) -> bool) {
    let mut i = 0usize;
    for kind in [Kind::Ldc0, Kind::Ldc1, Kind::Ldc2, Kind::Ccp, Kind::Bldd] {
        for l in [0usize, 1, 7, 8, 9, 33, 100] {
            let lw = l as u64;
            let mut offs = vec![0u64, 1, lw.saturating_sub(1), lw, lw + 1, 2 * lw, u64::MAX];
            offs.sort();
            offs.dedup();
            for off in offs {
                let rest = lw.saturating_sub(off.min(lw));
                let mut lens = vec![0u64, 1, 7, 8, 9, rest.saturating_sub(1), rest, rest + 1, lw, 2 * lw];
                lens.sort();
                lens.dedup();
                for len in lens {
                    for internal in [false, true] {
                        i += 1;
                        if i % nshards != shard {
                            continue;
                        }
                        let c = InstrCase {
                            kind,
                            value: pattern(l, 3),
                            target: Target::Present,
                            offset: off,
                            len,
                            id_loc: IdLoc::Heap,
                            dst: if internal { Dst::Heap } else { Dst::Stack },
                            internal,
                            dirty_stack: false,
                            stale_stack: false,
                        };
                        if !sink(c) {
                            return;
                        }
                    }
                }
            }
        }
    }
}

pub fn property() -> Property {
    Property {
        id: "C36",
        rule: "storage part: MemoryStorage tables ContractsRawCode/ContractsState/BlobData with neighbouring decoy keys; (value length L, offset, buffer length) from the exhaustive lattice L in {0,1,7,8,9,31,32,33,100,1000} x offset in {0,1,L-1,L,L+1,2L,2L+1,u32::MAX(+1),usize::MAX-L,usize::MAX-1,usize::MAX} x buffer in {0,1,rest-1,rest,rest+1,L,L+1,2L,8,9} x present/missing, plus random (L,offset,buffer) around the same boundaries; read_exact / read_zerofill / read_alloc / size_of_value compared with the documented contract. Instruction part: a script transaction (contract inputs: target, callee) is started in single-step mode on a MemoryStorage holding the value as contract code / blob; at the first suspension (script) or at the callee's first instruction (internal) operands are planted (id in fresh heap, guarded heap/stack destination) and LDC 0/1/2, CCP, BLDD, CSIZ, BSIZ is executed with Interpreter::instruction; outcome vs admissible panic set, destination == value[offset..][..len] zero-extended, LDC: padded length, zero padding, $ssp/$sp, frame code size; every other register, every previously accessible byte, receipts and storage unchanged. Non-trivial = offset == L, offset > L, a read crossing the end, or (LDC) a length that is not a multiple of 8".into(),
        assumptions: vec![
            "single-stepping / Interpreter::instruction execute exactly the given instruction in the prepared context (C32)".into(),
            "free gas costs, so $cgas/$ggas must not move".into(),
            "a contract listed in the inputs but missing from storage is rejected before execution (InputContractDoesNotExist), so ContractNotFound is unreachable and not exercised".into(),
            "ownership of empty destinations is a don't-care (counted)".into(),
        ],
        parts: vec![
            enum_part("reads-lattice", "exhaustive (table, L, offset, buffer, present) lattice", true, enum_reads, run_read),
            gen_part("reads-random", "random values (also with embedded zeros), offsets and buffers around L", (200_000, 10_000_000), |_c: &Ctx| read_case(), run_read),
            enum_part("instr-lattice", "exhaustive (kind, L, offset, len, context) lattice with valid operands", true, enum_instr, run_instr),
            gen_part("instr-random", "random instruction cases incl. invalid operands", (40_000, 2_000_000), |_c: &Ctx| instr_case(), run_instr),
        ],
        floors: vec![
            ("reads-random", "zerofill-offset==len", 0.05),
            ("reads-random", "zerofill-crossing-end", 0.10),
            ("instr-random", "ldc0:ok", 0.04),
            ("instr-random", "ccp:ok", 0.04),
            ("instr-random", "bldd:ok", 0.04),
        ],
    }
}
