//! C10 — Binary Merkle proofs are complete and sound.
//!
//! Completeness: the proof produced by the tree for (n, i) equals the RFC 6962 audit path and
//! verifies. Exactness: on every mutated tuple `binary::verify` returns exactly what the RFC 9162
//! §2.1.3.2 verifier (`model::rfc6962::verify_audit_path`) returns.
use crate::engine::*;
use crate::gens::pick;
use crate::model::rfc6962 as rf;
use crate::{ensure, ensure_eq};
use fuel_merkle::binary::{self, in_memory};
use fuel_merkle::common::StorageMap;
use proptest::prelude::*;
use serde::{Deserialize, Serialize};

type H = rf::H;

fn splitmix(x: &mut u64) -> u64 {
    *x = x.wrapping_add(0x9E37_79B9_7F4A_7C15);
    let mut z = *x;
    z = (z ^ (z >> 30)).wrapping_mul(0xBF58_476D_1CE4_E5B9);
    z = (z ^ (z >> 27)).wrapping_mul(0x94D0_49BB_1331_11EB);
    z ^ (z >> 31)
}

fn fill(seed: u64, len: usize) -> Vec<u8> {
    let mut s = seed;
    let mut v = Vec::with_capacity(len + 8);
    while v.len() < len {
        v.extend_from_slice(&splitmix(&mut s).to_le_bytes());
    }
    v.truncate(len);
    v
}

fn h32(seed: u64) -> H {
    let v = fill(seed, 32);
    let mut a = [0u8; 32];
    a.copy_from_slice(&v);
    a
}

/// leaf j of the tree with this seed: pseudo-random length 0..=40 (every 8th leaf empty)
fn leaf(seed: u64, j: u64) -> Vec<u8> {
    let mut s = seed ^ j.wrapping_mul(0xD6E8_FEB8_6659_FD93);
    let r = splitmix(&mut s);
    if r % 8 == 0 {
        return vec![];
    }
    fill(s, (r >> 8) as usize % 41)
}

// ---------------------------------------------------------------- reference helpers (u64 domain)

/// largest power of two strictly smaller than n (n >= 2)
fn split(n: u64) -> u64 {
    1u64 << (63 - (n - 1).leading_zeros())
}

/// length of PATH(m, D[n]) by the recursive definition of RFC 6962 §2.1.1
fn ref_len(index: u64, size: u64) -> Option<u32> {
    if index >= size {
        return None;
    }
    let (mut m, mut n, mut l) = (index, size, 0u32);
    while n > 1 {
        let k = split(n);
        if m < k {
            n = k;
        } else {
            m -= k;
            n -= k;
        }
        l += 1;
    }
    Some(l)
}

/// Root reached from (leaf hash, path) for position m of n by the *recursive* definition
/// (independent of the iterative RFC 9162 verifier); None if the path length is wrong.
fn ref_root(leaf_hash: H, path: &[H], m: u64, n: u64) -> Option<H> {
    if m >= n {
        return None;
    }
    if n == 1 {
        return if path.is_empty() { Some(leaf_hash) } else { None };
    }
    let (last, rest) = path.split_last()?;
    let k = split(n);
    if m < k {
        Some(rf::node_hash(&ref_root(leaf_hash, rest, m, k)?, last))
    } else {
        Some(rf::node_hash(last, &ref_root(leaf_hash, rest, m - k, n - k)?))
    }
}

// ---------------------------------------------------------------- tuples and mutations

#[derive(Debug, Clone)]
struct Tuple {
    root: H,
    data: Vec<u8>,
    proof: Vec<H>,
    index: u64,
    count: u64,
}

/// 2^63: from this count on `verify` overflows its shifts (see the part `synthetic-from-2^63`)
const HUGE: u64 = 1 << 63;

#[derive(Default)]
struct Stats {
    /// tuples with count >= 2^63 are not evaluated (the part's domain is count < 2^63)
    skip_huge: bool,
    skipped_huge: u64,
    mutated: u64,
    both_accept: u64,
    same_len_other_count: u64,
    same_len_other_count_accepted: u64,
}

/// verify == reference on one tuple
fn compare(t: &Tuple, family: &str, what: &dyn Fn() -> String, st: &mut Stats) -> Check {
    if st.skip_huge && t.count >= HUGE {
        st.skipped_huge += 1;
        return Ok(());
    }
    let r = rf::verify_audit_path(&t.root, &t.data, &t.proof, t.index, t.count);
    // second, structurally different reference (recursive definition); must agree with the first
    if t.proof.len() <= 64 {
        let r2 = ref_root(rf::leaf_hash(&t.data), &t.proof, t.index, t.count) == Some(t.root);
        ensure_eq!(r, r2, "harness-model-disagree", "iterative and recursive reference disagree on {} (index {} count {} len {})", what(), t.index, t.count, t.proof.len());
    }
    let v = match catch_panic(|| binary::verify(&t.root, &t.data, &t.proof, t.index, t.count)) {
        Ok(v) => v,
        Err((loc, msg)) => {
            // key by the input class when it is the known-overflowing one, else by location
            // (on the unchanged tree only length-consistent tuples get past the pre-check)
            let key = if t.count >= HUGE && ref_len(t.index, t.count) == Some(t.proof.len() as u32) {
                "verify:host-panic:count>=2^63".to_string()
            } else {
                format!("verify:host-panic@{}", loc.find("fuel-merkle/").map(|p| &loc[p..]).unwrap_or(&loc))
            };
            return Err(Failure::new(
                key,
                format!("verify panicked ({msg}) on {}: index={} count={} proof_len={} reference={r}", what(), t.index, t.count, t.proof.len()),
            ));
        }
    };
    st.mutated += 1;
    if v && r {
        st.both_accept += 1;
    }
    if v != r {
        let key = if v { format!("verify:accepts-reference-rejects:{family}") } else { format!("verify:rejects-reference-accepts:{family}") };
        return Err(Failure::new(
            key,
            format!("verify={v} reference={r} on {}: index={} count={} proof_len={} data_len={}", what(), t.index, t.count, t.proof.len(), t.data.len()),
        ));
    }
    Ok(())
}

fn flip(h: &H, bit: usize) -> H {
    let mut a = *h;
    a[(bit / 8) % 32] ^= 1 << (bit % 8);
    a
}

/// Structured mutation catalogue around a valid tuple.
/// `others`: alternative leaf data (other leaves of the tree); `indices` / `counts`: alternative values.
fn mutate_all(base: &Tuple, seed: u64, others: &[Vec<u8>], indices: &[u64], counts: &[u64], pairs: &[(u64, u64)], st: &mut Stats) -> Check {
    let l = base.proof.len();
    let mut s = seed;
    let leafh = rf::leaf_hash(&base.data);

    // -------- proof element mutations (every position for l <= 20, else both ends, the middle and 3 sampled)
    let positions: Vec<usize> = if l <= 20 {
        (0..=l).collect()
    } else {
        let mut v = vec![0, 1, l / 2, l - 2, l - 1, l];
        for _ in 0..3 {
            v.push((splitmix(&mut s) % (l as u64 + 1)) as usize);
        }
        v.sort();
        v.dedup();
        v
    };
    for &k in positions.iter().filter(|&&k| k < l) {
        let mut t = base.clone();
        t.proof.remove(k);
        compare(&t, "proof-drop", &|| format!("drop element {k} of {l}"), st)?;
        let mut t = base.clone();
        t.proof.insert(k, base.proof[k]);
        compare(&t, "proof-dup", &|| format!("duplicate element {k} of {l}"), st)?;
        for bit in [0usize, 7, 255, (splitmix(&mut s) % 256) as usize] {
            let mut t = base.clone();
            t.proof[k] = flip(&t.proof[k], bit);
            compare(&t, "proof-bitflip", &|| format!("flip bit {bit} of element {k} of {l}"), st)?;
        }
        let mut t = base.clone();
        t.proof[k] = [0u8; 32];
        compare(&t, "proof-replace", &|| format!("zero element {k} of {l}"), st)?;
        let mut t = base.clone();
        t.proof[k] = leafh;
        compare(&t, "proof-replace", &|| format!("element {k} := leaf hash"), st)?;
        if k + 1 < l {
            let mut t = base.clone();
            t.proof.swap(k, k + 1);
            compare(&t, "proof-swap", &|| format!("swap elements {k},{}", k + 1), st)?;
        }
    }
    if l >= 3 {
        let mut t = base.clone();
        t.proof.swap(0, l - 1);
        compare(&t, "proof-swap", &|| "swap first and last element".to_string(), st)?;
        let mut t = base.clone();
        t.proof.reverse();
        compare(&t, "proof-swap", &|| "reverse the proof".to_string(), st)?;
    }
    for &k in &positions {
        for (what, e) in [("zero", [0u8; 32]), ("random", h32(splitmix(&mut s))), ("leaf hash", leafh), ("root", base.root)] {
            let mut t = base.clone();
            t.proof.insert(k, e);
            compare(&t, "proof-insert", &|| format!("insert {what} element at {k} of {l}"), st)?;
        }
    }
    {
        let mut t = base.clone();
        t.proof.clear();
        compare(&t, "proof-drop", &|| "empty proof".to_string(), st)?;
        let mut t = base.clone();
        t.proof.truncate(l / 2);
        compare(&t, "proof-drop", &|| format!("truncate proof to {}", l / 2), st)?;
        // proof long enough to reach shift widths >= 64
        let mut t = base.clone();
        while t.proof.len() < 70 {
            t.proof.push(h32(splitmix(&mut s)));
        }
        compare(&t, "proof-insert", &|| "proof extended to 70 elements".to_string(), st)?;
    }

    // -------- data
    {
        let mut variants: Vec<(String, Vec<u8>)> = vec![];
        if !base.data.is_empty() {
            let nb = base.data.len() * 8;
            for bit in [0usize, nb - 1, (splitmix(&mut s) as usize) % nb] {
                let mut d = base.data.clone();
                d[bit / 8] ^= 1 << (bit % 8);
                variants.push((format!("flip data bit {bit}"), d));
            }
            variants.push(("drop last data byte".into(), base.data[..base.data.len() - 1].to_vec()));
            variants.push(("empty data".into(), vec![]));
        }
        let mut d = base.data.clone();
        d.push(0);
        variants.push(("append zero byte to data".into(), d));
        // second-preimage style: data := 0x00-less encoding of an inner node / the leaf hash itself
        variants.push(("data := leaf hash".into(), leafh.to_vec()));
        if l > 0 {
            let mut d = leafh.to_vec();
            d.extend_from_slice(&base.proof[0]);
            variants.push(("data := leafhash ++ sibling".into(), d));
        }
        for (k, o) in others.iter().enumerate() {
            variants.push((format!("data := other leaf #{k}"), o.clone()));
        }
        for (what, d) in variants {
            let mut t = base.clone();
            t.data = d;
            compare(&t, "data", &|| what.clone(), st)?;
        }
    }

    // -------- root
    for bit in [0usize, 255, (splitmix(&mut s) % 256) as usize] {
        let mut t = base.clone();
        t.root = flip(&t.root, bit);
        compare(&t, "root", &|| format!("flip root bit {bit}"), st)?;
    }
    for (what, r) in [("leaf hash", leafh), ("empty-tree root", rf::empty()), ("zero", [0u8; 32])] {
        let mut t = base.clone();
        t.root = r;
        compare(&t, "root", &|| format!("root := {what}"), st)?;
    }
    if l > 0 {
        // root of the truncated recomputation (what a verifier that stops early would reach)
        let mut t = base.clone();
        t.root = base.proof[l - 1];
        compare(&t, "root", &|| "root := last proof element".to_string(), st)?;
    }

    // -------- index
    for &j in indices {
        if j == base.index {
            continue;
        }
        let mut t = base.clone();
        t.index = j;
        compare(&t, "index", &|| format!("index {} -> {j}", base.index), st)?;
    }

    // -------- count
    for &m in counts {
        if m == base.count {
            continue;
        }
        let mut t = base.clone();
        t.count = m;
        let same_len = ref_len(base.index, m) == Some(l as u32);
        let before = st.both_accept;
        compare(&t, "count", &|| format!("count {} -> {m}", base.count), st)?;
        if same_len {
            st.same_len_other_count += 1;
            if st.both_accept > before {
                st.same_len_other_count_accepted += 1;
            }
        }
    }

    // -------- index and count together
    let (i, n) = (base.index, base.count);
    let mut both: Vec<(u64, u64)> = vec![
        (i.wrapping_add(1), n.wrapping_add(1)),
        (n, n),
        (n, n.wrapping_add(1)),
        (0, 0),
        (i, 0),
        (u64::MAX, u64::MAX),
        (u64::MAX - 1, u64::MAX),
        (i, u64::MAX),
        (i, 1u64 << 63),
        (i | (1 << 63), n | (1 << 63)),
        (i | (1 << 32), n | (1 << 32)),
    ];
    if n > 0 {
        both.push((n - 1 - i.min(n - 1), n)); // mirrored index
        let p = n.checked_next_power_of_two().unwrap_or(1 << 63);
        both.push((i.wrapping_add(p), n.wrapping_add(p)));
    }
    both.extend_from_slice(pairs);
    for (j, m) in both {
        if (j, m) == (i, n) {
            continue;
        }
        let mut t = base.clone();
        t.index = j;
        t.count = m;
        compare(&t, "index-and-count", &|| format!("(index,count) ({i},{n}) -> ({j},{m})"), st)?;
    }
    Ok(())
}

fn record(st: &Stats, obs: &mut Obs) {
    obs.note("mutated-tuples", st.mutated);
    if st.skipped_huge > 0 {
        obs.note("tuples-outside-domain(count>=2^63)", st.skipped_huge);
    }
    obs.note("mutated-tuples-accepted-by-both", st.both_accept);
    obs.note("same-length-other-count", st.same_len_other_count);
    obs.note("same-length-other-count-accepted-by-both", st.same_len_other_count_accepted);
}

// ---------------------------------------------------------------- part 1: all (n, i) for small n

#[derive(Debug, Clone, Serialize, Deserialize)]
pub struct SmallCase {
    pub n: u32,
    pub i: u32,
    pub seed: u64,
}

/// for n up to this every (index, count) pair with count <= 2n+2 is tried on the valid proof
const ALL_PAIRS_MAX: u64 = 32;

fn small_max(tier: Tier) -> u32 {
    tier.pick(128, 300)
}

fn enumerate_small(ctx: &Ctx, shard: usize, nshards: usize, sink: &mut dyn FnMut(SmallCase) -> bool) {
    let mut idx = 0usize;
    for n in 1..=small_max(ctx.tier) {
        for i in 0..n {
            idx += 1;
            if idx % nshards != shard {
                continue;
            }
            let mut s = ctx.seed ^ ((n as u64) << 20) ^ i as u64;
            if !sink(SmallCase { n, i, seed: splitmix(&mut s) }) {
                return;
            }
        }
    }
}

/// proof from the tree must be the RFC audit path, the root the MTH, and it must verify
fn completeness(what: &str, got: Option<(H, Vec<H>)>, want_root: &H, want_path: &[H], data: &Vec<u8>, i: u64, n: u64) -> Check {
    let Some((root, proof)) = got else {
        return Err(Failure::new(format!("{what}:prove-refused"), format!("prove({i}) refused with {n} leaves")));
    };
    ensure_eq!(&root, want_root, format!("{what}:prove-root"), "prove({i}) of {n}: root");
    ensure_eq!(proof.len(), want_path.len(), format!("{what}:prove-path-length"), "prove({i}) of {n}: path length");
    ensure_eq!(proof.as_slice(), want_path, format!("{what}:prove-path"), "prove({i}) of {n}: path");
    let ok = catch_panic(|| binary::verify(&root, data, &proof, i, n)).map_err(|(loc, msg)| {
        Failure::new(
            format!("verify:host-panic@{}", loc.find("fuel-merkle/").map(|p| &loc[p..]).unwrap_or(&loc)),
            format!("verify panicked on a valid proof ({i} of {n}): {msg}"),
        )
    })?;
    ensure!(ok, "verify:rejects-valid-proof", "valid proof for {i} of {n} (length {}) does not verify", proof.len());
    Ok(())
}

fn run_small(c: &SmallCase, obs: &mut Obs) -> Check {
    let (n, i) = (c.n as u64, c.i as u64);
    ensure!(i < n, "harness-bad-case", "i < n required");
    let leaves: Vec<Vec<u8>> = (0..n).map(|j| leaf(c.seed, j)).collect();
    let hashes: Vec<H> = leaves.iter().map(|l| rf::leaf_hash(l)).collect();
    let want_root = rf::mth_hashed(&hashes);
    let want_path = rf::audit_path_hashed(i as usize, &hashes);
    ensure_eq!(Some(want_path.len() as u32), ref_len(i, n), "harness-model-disagree", "audit path length vs ref_len");

    let mut im = in_memory::MerkleTree::new();
    let mut storage = StorageMap::<in_memory::NodesTable>::new();
    let mut stt: binary::MerkleTree<in_memory::NodesTable, &mut StorageMap<in_memory::NodesTable>> = binary::MerkleTree::new(&mut storage);
    for l in &leaves {
        im.push(l);
        stt.push(l).map_err(|e| Failure::new("storage:push-error", format!("{e:?}")))?;
    }
    let data = &leaves[i as usize];
    completeness("inmem", im.prove(i), &want_root, &want_path, data, i, n)?;
    let sp = stt.prove(i).map_err(|e| Failure::new("storage:prove-refused", format!("prove({i}) of {n}: {e:?}")))?;
    completeness("storage", Some(sp), &want_root, &want_path, data, i, n)?;
    // beyond the end the tree must refuse
    ensure!(im.prove(n).is_none(), "inmem:prove-beyond-count", "prove({n}) accepted with {n} leaves");
    ensure!(stt.prove(n).is_err(), "storage:prove-beyond-count", "prove({n}) accepted with {n} leaves");

    let base = Tuple { root: want_root, data: data.clone(), proof: want_path, index: i, count: n };
    let l = base.proof.len() as u32;
    // every other index (and a few beyond), every count in a window that contains all counts with
    // the same proof length for this index (they lie in (i, 2^l]) and more
    let indices: Vec<u64> = (0..n + 3).chain([u64::MAX, 1 << 63, 1 << 32]).collect();
    let top = ((1u64 << l) + 2).max(2 * n + 2).min(1100);
    let counts: Vec<u64> = (0..=top).chain([u64::MAX, u64::MAX - 1, 1 << 63, (1 << 63) + 1, 1 << 32, (1 << 32) + 1, n + (1 << 32)]).collect();
    let others: Vec<Vec<u8>> = [0, (i + 1) % n, n - 1].iter().map(|&j| leaves[j as usize].clone()).collect();
    // joint re-interpretations of the same (data, proof, root) as position j of m leaves:
    // for small n every pair, otherwise the first / last / last-but-one positions of every m
    let mut pairs: Vec<(u64, u64)> = vec![];
    if n <= ALL_PAIRS_MAX {
        for m in 1..=2 * n + 2 {
            for j in 0..m {
                pairs.push((j, m));
            }
        }
    } else {
        for m in 1..=top {
            pairs.push((m - 1, m));
            pairs.push((m.saturating_sub(2), m));
            pairs.push((0, m));
            pairs.push((m / 2, m));
        }
    }
    let mut st = Stats::default();
    mutate_all(&base, c.seed, &others, &indices, &counts, &pairs, &mut st)?;
    record(&st, obs);
    if st.same_len_other_count > 0 {
        obs.class("has-same-length-other-count-mutation");
        obs.nontrivial(&(c.n, c.i));
    }
    if st.same_len_other_count_accepted > 0 {
        obs.class("reference-accepts-some-other-count");
    }
    obs.class(if i + 1 == n && !n.is_power_of_two() { "last-leaf-of-unbalanced-tree" } else { "other-position" });
    Ok(())
}

// ---------------------------------------------------------------- part 2: sampled large trees

#[derive(Debug, Clone, Serialize, Deserialize)]
pub enum IdxSel {
    First,
    Last,
    /// 2^k - 1 for the k selected in 0..=log2(n)
    PowMinus1(u16),
    /// 2^k
    Pow(u16),
    /// largest power of two below n, ± offset
    AroundSplit(i8),
    Any(u16),
}

#[derive(Debug, Clone, Serialize, Deserialize)]
pub struct LargeCase {
    pub n: u32,
    pub isel: IdxSel,
    pub seed: u64,
}

fn idx_sel() -> impl Strategy<Value = IdxSel> {
    prop_oneof![
        1 => Just(IdxSel::First),
        2 => Just(IdxSel::Last),
        2 => any::<u16>().prop_map(IdxSel::PowMinus1),
        2 => any::<u16>().prop_map(IdxSel::Pow),
        2 => (-3i8..=3).prop_map(IdxSel::AroundSplit),
        3 => any::<u16>().prop_map(IdxSel::Any),
    ]
}

fn large_n(maxpow: u32) -> impl Strategy<Value = u32> {
    prop_oneof![
        4 => (6u32..=maxpow, -2i32..=2).prop_map(|(k, d)| ((1i64 << k) + d as i64) as u32),
        2 => (6u32..=maxpow, 5u32..=maxpow).prop_map(move |(a, b)| ((1u32 << a) + (1u32 << b.min(a))).min(1 << maxpow)),
        3 => 64u32..=(1u32 << maxpow),
        1 => 64u32..=1024,
    ]
}

fn resolve_idx(sel: &IdxSel, n: u64) -> u64 {
    let lg = 63 - n.leading_zeros() as u64; // floor(log2 n)
    let i = match sel {
        IdxSel::First => 0,
        IdxSel::Last => n - 1,
        IdxSel::PowMinus1(s) => (1u64 << pick(*s, lg as usize + 1)) - 1,
        IdxSel::Pow(s) => 1u64 << pick(*s, lg as usize + 1),
        IdxSel::AroundSplit(d) => {
            let k = if n >= 2 { split(n) } else { 0 };
            k.saturating_add_signed(*d as i64)
        }
        IdxSel::Any(s) => ((*s as u64) * n) >> 16,
    };
    i.min(n - 1)
}

fn run_large(c: &LargeCase, obs: &mut Obs) -> Check {
    let n = c.n as u64;
    ensure!(n >= 1, "harness-bad-case", "n >= 1");
    let i = resolve_idx(&c.isel, n);
    let leaves: Vec<Vec<u8>> = (0..n).map(|j| leaf(c.seed, j)).collect();
    let hashes: Vec<H> = leaves.iter().map(|l| rf::leaf_hash(l)).collect();
    let want_root = rf::mth_hashed(&hashes);
    let want_path = rf::audit_path_hashed(i as usize, &hashes);
    let mut im = in_memory::MerkleTree::new();
    for l in &leaves {
        im.push(l);
    }
    let data = &leaves[i as usize];
    completeness("inmem", im.prove(i), &want_root, &want_path, data, i, n)?;
    ensure!(im.prove(n).is_none(), "inmem:prove-beyond-count", "prove({n}) accepted with {n} leaves");

    let base = Tuple { root: want_root, data: data.clone(), proof: want_path, index: i, count: n };
    let l = base.proof.len() as u32;
    let mut s = c.seed ^ 0x5151;
    let mut indices: Vec<u64> = vec![0, 1, n - 1, n, n + 1, i.wrapping_sub(1), i + 1, i ^ 1, i ^ 2, n - 1 - i, u64::MAX, 1 << 63];
    for k in 0..=l {
        indices.push(i ^ (1u64 << k));
        indices.push((1u64 << k).wrapping_sub(1));
        indices.push(1u64 << k);
    }
    for _ in 0..8 {
        indices.push(splitmix(&mut s) % n);
    }
    let p = n.next_power_of_two();
    let mut counts: Vec<u64> = vec![0, 1, i, i + 1, i + 2, p, p - 1, p + 1, p / 2, p / 2 + 1, 2 * p, 1u64 << l, (1u64 << l) + 1, (1u64 << l) - 1, u64::MAX, 1 << 63, (1 << 63) + 1, n + (1 << 32)];
    for d in 1..=8u64 {
        counts.push(n + d);
        counts.push(n.saturating_sub(d));
    }
    // pseudo-random counts in (i, 2^l]: the range where the proof length can stay the same
    let span = (1u64 << l).saturating_sub(i).max(1);
    for _ in 0..24 {
        counts.push(i + 1 + splitmix(&mut s) % span);
    }
    let others: Vec<Vec<u8>> = [0, (i + 1) % n, n - 1].iter().map(|&j| leaves[j as usize].clone()).collect();
    // joint re-interpretations: last / first leaf of other tree sizes, same offset from the end, shifted windows
    let mut pairs: Vec<(u64, u64)> = vec![];
    for &m in &counts {
        if m >= 1 {
            pairs.push((m - 1, m));
            pairs.push((0, m));
            pairs.push((m - 1 - (n - 1 - i).min(m - 1), m));
        }
    }
    for k in 0..=l + 1 {
        // the sub-tree views: drop the k low / high levels of the position
        pairs.push((i >> k, (n >> k).max(1)));
        pairs.push((i >> k, ((n - 1) >> k) + 1));
        pairs.push((i & ((1u64 << k) - 1), 1u64 << k));
        pairs.push((i & ((1u64 << k) - 1), (n & ((1u64 << k) - 1)).max(1)));
    }
    let mut st = Stats::default();
    mutate_all(&base, c.seed, &others, &indices, &counts, &pairs, &mut st)?;
    record(&st, obs);
    if st.same_len_other_count > 0 {
        obs.class("has-same-length-other-count-mutation");
        obs.nontrivial(&(c.n, i));
    }
    obs.class(if i + 1 == n && !n.is_power_of_two() { "last-leaf-of-unbalanced-tree" } else { "other-position" });
    obs.class(&format!("proof-length={:02}", l));
    Ok(())
}

// ---------------------------------------------------------------- part 3: synthetic tuples, whole u64 domain

#[derive(Debug, Clone, Serialize, Deserialize)]
pub enum CountB {
    /// count_a + delta (wrapping)
    Delta(i8),
    /// count_a with bit k flipped
    FlipBit(u8),
    Abs(u64),
}

#[derive(Debug, Clone, Serialize, Deserialize)]
pub struct SynthCase {
    /// tree size the proof is built for (>= 1)
    pub count_a: u64,
    /// index = floor(frac * count_a / 2^16), or an explicit boundary
    pub index: SynIdx,
    pub count_b: CountB,
    pub data: Vec<u8>,
    pub seed: u64,
}

#[derive(Debug, Clone, Serialize, Deserialize)]
pub enum SynIdx {
    First,
    Last,
    Frac(u16),
    /// 2^k - 1 + d, clamped below count
    NearPow(u8, i8),
    /// split(count) + d
    NearSplit(i8),
}

fn syn_count(limit_pow: u32) -> impl Strategy<Value = u64> {
    // limit_pow = 63: counts in 1..2^63 ; 64: whole u64
    let top = if limit_pow >= 64 { u64::MAX } else { (1u64 << limit_pow) - 1 };
    prop_oneof![
        3 => (0u32..=63, -2i64..=2).prop_map(|(k, d)| (1u64 << k).wrapping_add(d as u64)),
        2 => (0u32..=63, 0u32..=63).prop_map(|(a, b)| (1u64 << a) | (1u64 << b)),
        2 => any::<u64>(),
        1 => 1u64..5000,
        1 => (0u32..64).prop_map(|k| u64::MAX >> k),
    ]
    .prop_map(move |c| c.clamp(1, top))
}

fn syn_case(limit_pow: u32, beyond: bool) -> impl Strategy<Value = SynthCase> {
    let count = if beyond {
        prop_oneof![
            2 => (0u64..=u64::MAX >> 1).prop_map(|d| (1u64 << 63) + d),
            2 => (0u64..4).prop_map(|d| (1u64 << 63) + d),
            1 => (0u64..4).prop_map(|d| u64::MAX - d),
        ]
        .boxed()
    } else {
        syn_count(limit_pow).boxed()
    };
    (
        count,
        prop_oneof![
            1 => Just(SynIdx::First),
            2 => Just(SynIdx::Last),
            3 => any::<u16>().prop_map(SynIdx::Frac),
            2 => (0u8..64, -1i8..=1).prop_map(|(k, d)| SynIdx::NearPow(k, d)),
            2 => (-2i8..=2).prop_map(SynIdx::NearSplit),
        ],
        prop_oneof![
            3 => (-4i8..=4).prop_map(CountB::Delta),
            2 => (0u8..64).prop_map(CountB::FlipBit),
            1 => any::<u64>().prop_map(CountB::Abs),
        ],
        crate::gens::small_bytes(),
        any::<u64>(),
    )
        .prop_map(|(count_a, index, count_b, data, seed)| SynthCase { count_a, index, count_b, data, seed })
}

fn run_synth(c: &SynthCase, obs: &mut Obs) -> Check {
    let n = c.count_a;
    ensure!(n >= 1, "harness-bad-case", "count_a >= 1");
    let i = match &c.index {
        SynIdx::First => 0,
        SynIdx::Last => n - 1,
        SynIdx::Frac(f) => ((*f as u128 * n as u128) >> 16) as u64,
        SynIdx::NearPow(k, d) => ((1u64 << (*k % 64)) - 1).saturating_add_signed(*d as i64),
        SynIdx::NearSplit(d) => (if n >= 2 { split(n) } else { 0 }).saturating_add_signed(*d as i64),
    }
    .min(n - 1);
    let l = ref_len(i, n).expect("i < n");
    let mut s = c.seed;
    let proof: Vec<H> = (0..l).map(|_| h32(splitmix(&mut s))).collect();
    let root = ref_root(rf::leaf_hash(&c.data), &proof, i, n).ok_or_else(|| Failure::new("harness-model-disagree", "ref_root refused a path of ref_len"))?;
    let base = Tuple { root, data: c.data.clone(), proof, index: i, count: n };
    ensure!(
        rf::verify_audit_path(&base.root, &base.data, &base.proof, i, n),
        "harness-model-disagree",
        "RFC 9162 verifier rejects the tuple built by the recursive definition (index {i}, size {n}, len {l})"
    );
    let mut st = Stats { skip_huge: n < HUGE, ..Stats::default() };
    // completeness on the u64 domain
    compare(&base, "valid-synthetic", &|| format!("valid synthetic tuple for index {i} of {n} (path length {l})"), &mut st)?;

    let m = match c.count_b {
        CountB::Delta(d) => n.wrapping_add(d as i64 as u64),
        CountB::FlipBit(k) => n ^ (1u64 << (k % 64)),
        CountB::Abs(m) => m,
    };
    let p = n.checked_next_power_of_two().unwrap_or(1 << 63);
    let mut counts = vec![m, 0, 1, i, i.wrapping_add(1), i.wrapping_add(2), n.wrapping_add(1), n - 1, p, p.wrapping_add(1), p - 1, u64::MAX, 1 << 63, (1 << 63) + 1];
    if l < 64 {
        counts.extend([1u64 << l, (1u64 << l) + 1, (1u64 << l) - 1]);
        let span = (1u64 << l).saturating_sub(i).max(1);
        for _ in 0..8 {
            counts.push(i.wrapping_add(1).wrapping_add(splitmix(&mut s) % span));
        }
    }
    let mut indices = vec![0, n - 1, n, n.wrapping_add(1), i.wrapping_add(1), i.wrapping_sub(1), i ^ 1, n - 1 - i, u64::MAX, 1 << 63];
    for k in [0u32, 1, l.saturating_sub(1).min(63), l.min(63)] {
        indices.push(i ^ (1u64 << k));
    }
    let others = vec![vec![], vec![0u8]];
    let mut pairs: Vec<(u64, u64)> = vec![];
    for &m2 in &counts {
        if m2 >= 1 {
            pairs.push((m2 - 1, m2));
            pairs.push((0, m2));
            pairs.push((m2 - 1 - (n - 1 - i).min(m2 - 1), m2));
        }
    }
    for k in 0..=(l + 1).min(63) {
        pairs.push((i >> k, (n >> k).max(1)));
        pairs.push((i >> k, ((n - 1) >> k) + 1));
        pairs.push((i & ((1u64 << k) - 1), 1u64 << k));
        pairs.push((i & ((1u64 << k) - 1), (n & ((1u64 << k) - 1)).max(1)));
    }
    mutate_all(&base, c.seed, &others, &indices, &counts, &pairs, &mut st)?;
    record(&st, obs);
    obs.class(&format!("count-bits={:02}", 64 - n.leading_zeros()));
    obs.class(if n >= HUGE { "count>=2^63" } else if n > (1 << 32) { "count>2^32" } else { "count<=2^32" });
    if st.same_len_other_count > 0 {
        obs.class("has-same-length-other-count-mutation");
        obs.nontrivial(&(n, i, m));
    }
    Ok(())
}

pub fn property() -> Property {
    Property {
        id: "C10",
        rule: "(1) exhaustive: every (n, i) with i < n <= 128|300, tree built by both tree types, proof compared with the RFC 6962 audit path and verified, then the mutation catalogue (drop/duplicate/insert/replace/swap/bit-flip proof elements, data and root edits incl. second-preimage shapes, every other index, every count 0..=max(2^len+2, 2n+2) plus huge ones, joint index/count edits) with verify == RFC 9162 reference on each mutated tuple; (2) sampled trees 64 <= n <= 2^13|2^16 biased to 2^k, 2^k±1, 2^a+2^b and boundary indices, same catalogue with sampled counts; (3) synthetic tuples for every count below 2^63: random path of the reference length, root by the recursive definition, verify must accept and agree with the reference under mutation; (4) the same for counts in [2^63, 2^64). Non-trivial = case with at least one mutated tuple whose count differs but whose reference path length is unchanged; distinct by (n, i[, other count])".into(),
        assumptions: vec![
            "sha2 crate is correct".into(),
            "model::rfc6962::verify_audit_path is RFC 9162 §2.1.3.2 (cross-checked on every tuple against a recursive re-statement of RFC 6962 §2.1.1 inside this module)".into(),
        ],
        parts: vec![
            enum_part("small-exhaustive", "all (n, i), n <= 128 (quick) / 300 (thorough), full mutation catalogue", true, enumerate_small, run_small),
            gen_part("sampled-large", "real trees up to 2^13 / 2^16 leaves", (1_600, 25_000), |c: &Ctx| {
                (large_n(c.tier.pick(13, 16)), idx_sel(), any::<u64>()).prop_map(|(n, isel, seed)| LargeCase { n, isel, seed })
            }, run_large),
            gen_part("synthetic-u64", "synthetic valid tuples for counts 1..2^63 and their mutations (mutated counts >= 2^63 are outside this part's domain and counted)", (20_000, 500_000), |_c: &Ctx| syn_case(63, false), run_synth),
            gen_part("synthetic-from-2^63", "synthetic valid tuples for counts in [2^63, 2^64) (2^63 leaves is the largest tree the library's positions can address; kept apart so that a disagreement here does not mask the other parts)", (4_000, 50_000), |_c: &Ctx| syn_case(64, true), run_synth),
        ],
        floors: vec![
            ("small-exhaustive", "has-same-length-other-count-mutation", 0.5),
            ("sampled-large", "has-same-length-other-count-mutation", 0.5),
            ("synthetic-u64", "has-same-length-other-count-mutation", 0.3),
        ],
    }
}
