//! C25 — Control flow lands exactly where the specification says.
//!
//! Reference (instruction-set specification; `JumpMode` documentation), in exact integers:
//!
//! | instruction            | taken iff        | target                          |
//! |------------------------|------------------|---------------------------------|
//! | JI imm                 | always           | `$is + 4·imm`                   |
//! | JNEI rA rB imm         | `$rA != $rB`     | `$is + 4·imm`                   |
//! | JNZI rA imm            | `$rA != 0`       | `$is + 4·imm`                   |
//! | JMP rA                 | always           | `$is + 4·$rA`                   |
//! | JNE rA rB rC           | `$rA != $rB`     | `$is + 4·$rC`                   |
//! | JMPF rA imm            | always           | `$pc + 4·($rA + imm + 1)`       |
//! | JMPB rA imm            | always           | `$pc − 4·($rA + imm + 1)`       |
//! | JNZF/JNZB rA rB imm    | `$rA != 0`       | `$pc ± 4·($rB + imm + 1)`       |
//! | JNEF/JNEB rA rB rC imm | `$rA != $rB`     | `$pc ± 4·($rC + imm + 1)`       |
//! | JAL rA rB imm          | always           | `$rB + 4·imm`, `$rA = $pc + 4` unless rA is `$zero`; a reserved rA panics |
//!
//! A taken jump succeeds iff `0 ≤ target < VM_MAX_RAM`, otherwise it panics with MemoryOverflow;
//! an untaken jump sets `$pc += 4`. (The JNE operand order is the specification's and the one the
//! repository's own tests use; the argument *names* in `fuel-asm` — `abs_target, lhs, rhs` — are
//! in a different order.)
//!
//! Part (a) executes single jumps on a planted VM (`$pc`, `$is` and operand registers planted).
//! Part (b) single-steps G-PROG worlds (jump-heavy weights plus aimed edge sequences: jumps to
//! `$ssp`, below `$is`, into the heap, into the gap, beyond memory, JAL subroutines) and checks
//! every step: an event only at `$is ≤ $pc < $ssp` with readable `$pc..$pc+4`; every successful
//! non-jump, non-CALL/RET/RETD/RVRT instruction moves `$pc` by +4; every jump lands on the
//! reference target computed from the registers before the step; a run that ends with a panic at
//! an address no event was reported for ended in the instruction fetch, with
//! MemoryNotExecutable only outside the region, a memory reason only for unreadable `$pc`.
use crate::engine::*;
use crate::gens;
use crate::model::isa::{self, Fields, Shape};
use crate::vm::prog::{self, Tpl};
use crate::vm::world::{self, run_stepping, WorldSpec};
use crate::vmfix::{self, is_gas_reg, RegFile, StepError, NREGS};
use crate::{ensure, ensure_eq, fail};
use fuel_asm::{op, PanicReason, RegId};
use fuel_tx::Receipt;
use fuel_vm::state::ExecuteState;
use proptest::prelude::*;
use serde::{Deserialize, Serialize};
use std::cell::RefCell;

/// VM_MAX_RAM of the specification
const MEM: u64 = 1 << 26;
const R_PC: usize = 0x03;
const R_SSP: usize = 0x04;
const R_FP: usize = 0x06;
const R_IS: usize = 0x0C;
const WRITABLE: u8 = 0x10;

#[derive(Clone, Copy, Debug, PartialEq, Eq)]
enum Base {
    Is,
    Forward,
    Backward,
    /// JAL: the register itself is the base, the immediate is scaled
    Register,
}

#[derive(Clone, Copy, Debug, PartialEq, Eq)]
enum Cond {
    Always,
    /// `$rA != 0`
    NonZero,
    /// `$rA != $rB`
    NotEqual,
}

struct JumpOp {
    name: &'static str,
    byte: u8,
    shape: Shape,
    cond: Cond,
    base: Base,
    /// index of the register field holding the dynamic part (None: immediate only)
    dynamic: Option<usize>,
}

const JUMPS: [JumpOp; 12] = [
    JumpOp { name: "JI", byte: 0x90, shape: Shape::I24, cond: Cond::Always, base: Base::Is, dynamic: None },
    JumpOp { name: "JNEI", byte: 0x5B, shape: Shape::RRI12, cond: Cond::NotEqual, base: Base::Is, dynamic: None },
    JumpOp { name: "JNZI", byte: 0x73, shape: Shape::RI18, cond: Cond::NonZero, base: Base::Is, dynamic: None },
    JumpOp { name: "JMP", byte: 0x4A, shape: Shape::R, cond: Cond::Always, base: Base::Is, dynamic: Some(0) },
    JumpOp { name: "JNE", byte: 0x4B, shape: Shape::RRR, cond: Cond::NotEqual, base: Base::Is, dynamic: Some(2) },
    JumpOp { name: "JMPF", byte: 0x74, shape: Shape::RI18, cond: Cond::Always, base: Base::Forward, dynamic: Some(0) },
    JumpOp { name: "JMPB", byte: 0x75, shape: Shape::RI18, cond: Cond::Always, base: Base::Backward, dynamic: Some(0) },
    JumpOp { name: "JNZF", byte: 0x76, shape: Shape::RRI12, cond: Cond::NonZero, base: Base::Forward, dynamic: Some(1) },
    JumpOp { name: "JNZB", byte: 0x77, shape: Shape::RRI12, cond: Cond::NonZero, base: Base::Backward, dynamic: Some(1) },
    JumpOp { name: "JNEF", byte: 0x78, shape: Shape::RRRI6, cond: Cond::NotEqual, base: Base::Forward, dynamic: Some(2) },
    JumpOp { name: "JNEB", byte: 0x79, shape: Shape::RRRI6, cond: Cond::NotEqual, base: Base::Backward, dynamic: Some(2) },
    JumpOp { name: "JAL", byte: 0x99, shape: Shape::RRI12, cond: Cond::Always, base: Base::Register, dynamic: Some(1) },
];

const CALL: u8 = 0x2D;
const RET: u8 = 0x24;
const RETD: u8 = 0x25;
const RVRT: u8 = 0x36;

fn jump_by_byte(b: u8) -> Option<&'static JumpOp> {
    JUMPS.iter().find(|j| j.byte == b)
}

/// what the specification says a jump does, from the registers before the step
#[derive(Clone, Debug, PartialEq, Eq)]
struct JumpRef {
    taken: bool,
    /// exact target of a taken jump
    target: i128,
    /// JAL: (return register, value to store); None when discarded ($zero) or not a JAL
    link: Option<(u8, u64)>,
    /// JAL with a reserved (non-zero) return register
    reserved_link: bool,
    /// register ids the instruction reads
    reads: Vec<u8>,
    /// the exact target needs more than 64 bits or is negative
    saturating: bool,
}

impl JumpRef {
    fn panics(&self) -> Vec<PanicReason> {
        let mut v = vec![];
        if self.reserved_link {
            v.push(PanicReason::ReservedRegisterNotWritable);
        }
        if self.taken && !(0..MEM as i128).contains(&self.target) {
            v.push(PanicReason::MemoryOverflow);
        }
        v
    }
    fn new_pc(&self, pc: u64) -> u64 {
        if self.taken { self.target as u64 } else { pc + 4 }
    }
}

fn reference(j: &JumpOp, f: &Fields, reg: &dyn Fn(u8) -> u64, pc: u64, is: u64) -> JumpRef {
    let nregs = j.shape.regs();
    let r = |i: usize| f.v[i] as u8;
    let imm: i128 = if j.shape.imm_bits() != 0 { f.v[nregs] as i128 } else { 0 };
    let mut reads = vec![];
    let taken = match j.cond {
        Cond::Always => true,
        Cond::NonZero => {
            reads.push(r(0));
            reg(r(0)) != 0
        }
        Cond::NotEqual => {
            reads.extend([r(0), r(1)]);
            reg(r(0)) != reg(r(1))
        }
    };
    let dynamic: i128 = match j.dynamic {
        Some(i) => {
            reads.push(r(i));
            reg(r(i)) as i128
        }
        None => 0,
    };
    let target = match j.base {
        Base::Is => is as i128 + 4 * (dynamic + imm),
        Base::Forward => pc as i128 + 4 * (dynamic + imm + 1),
        Base::Backward => pc as i128 - 4 * (dynamic + imm + 1),
        Base::Register => dynamic + 4 * imm,
    };
    let (link, reserved_link) = if j.base == Base::Register {
        let a = r(0);
        if a == 0 {
            (None, false)
        } else if a < WRITABLE {
            (None, true)
        } else {
            (Some((a, pc + 4)), false)
        }
    } else {
        (None, false)
    };
    JumpRef { taken, target, link, reserved_link, reads, saturating: taken && !(0..=u64::MAX as i128).contains(&target) }
}

// ------------------------------------------------------------------ (a) single instructions

#[derive(Debug, Clone, Serialize, Deserialize, PartialEq, Eq)]
pub struct JumpCase {
    /// opcode byte
    pub op: u8,
    /// register ids of the register fields (as many as the shape has)
    pub regs: [u8; 3],
    pub imm: u32,
    /// values planted into the register fields (writable registers only; later wins)
    pub vals: [u64; 3],
    pub pc: u64,
    pub is: u64,
}

fn check_jump(c: &JumpCase, obs: &mut Obs) -> Check {
    let Some(j) = jump_by_byte(c.op) else { fail!("harness-jump-case", "opcode {:#04x} is not a jump", c.op) };
    let nregs = j.shape.regs();
    let mut fv: Vec<u32> = c.regs[..nregs].iter().map(|r| *r as u32).collect();
    if j.shape.imm_bits() != 0 {
        fv.push(c.imm);
    }
    let fields = Fields::of(&fv);
    ensure!(j.shape.in_range(&fields), "harness-jump-case", "field out of range: {c:?}");
    if c.pc >= MEM || c.is > c.pc {
        // $pc is the address of an instruction that was fetched: inside memory, not below $is
        obs.class("out-of-domain");
        return Ok(());
    }
    let word = j.shape.pack(j.byte, &fields);
    let (before, res, after): (RegFile, Result<ExecuteState, StepError>, RegFile) = vmfix::with_reused_vm(|vm, init| {
        let mut regs = *init;
        regs[R_PC] = c.pc;
        regs[R_IS] = c.is;
        for i in 0..nregs {
            if c.regs[i] >= WRITABLE {
                regs[c.regs[i] as usize] = c.vals[i];
            }
        }
        vmfix::plant(vm, &regs);
        let res = vmfix::step(vm, word);
        (regs, res, vmfix::regfile(vm))
    })
    .map_err(|e| Failure::new("harness-vm-fixture", e))?;
    let src = |r: u8| if is_gas_reg(r as usize) { after[r as usize] } else { before[r as usize] };
    let rf = reference(j, &fields, &src, c.pc, c.is);
    let name = j.name;

    obs.class(&format!("op:{name}"));
    obs.class(if rf.taken { "taken" } else { "untaken" });
    let backward = rf.taken && rf.target < c.pc as i128;
    if rf.saturating {
        obs.class("saturating");
    }
    if backward {
        obs.class("taken-backward");
    }
    if rf.taken && (rf.target - MEM as i128).abs() <= 4 {
        obs.class("target-within-4-of-VM_MAX_RAM");
    }
    if rf.taken && rf.target < 0 {
        obs.class("target-below-0");
    }
    if rf.saturating || backward {
        obs.class("non-trivial");
        let tclass = if rf.target < 0 { 0u8 } else if rf.target < MEM as i128 { 1 } else if rf.target <= u64::MAX as i128 { 2 } else { 3 };
        obs.nontrivial(&(c.op, tclass, c.imm, c.regs, (c.pc - c.is).min(64), rf.target.unsigned_abs().leading_zeros()));
    }
    // JAL whose return register is also its target register: the order of the two effects
    // decides the target; both readings are accepted
    let alias_link = j.base == Base::Register && rf.link.is_some() && c.regs[0] == c.regs[1];
    let alt = if alias_link {
        obs.note("JAL with rA == rB (both orders accepted)", 1);
        let v = |r: u8| if r == c.regs[0] { c.pc + 4 } else { src(r) };
        Some(reference(j, &fields, &v, c.pc, c.is))
    } else {
        None
    };

    let mut panics = rf.panics();
    if let Some(a) = &alt {
        if a.panics().is_empty() != panics.is_empty() {
            // one reading panics, the other does not: nothing to require
            obs.class("dont-care");
            return Ok(());
        }
        panics.extend(a.panics());
    }
    if !panics.is_empty() {
        return match &res {
            Err(StepError::Panic(r)) if panics.contains(r) => {
                obs.class(&format!("panic:{r:?}"));
                if (0..NREGS).any(|i| !is_gas_reg(i) && after[i] != before[i]) {
                    obs.note("panicking jump left a non-gas register changed", 1);
                }
                Ok(())
            }
            Ok(_) => fail!(format!("{name}:missing-panic:{:?}", panics[0]), "{c:?}: exact target {} taken={} expected panic {panics:?}, got $pc={}", rf.target, rf.taken, after[R_PC]),
            other => fail!(format!("{name}:wrong-panic"), "{c:?}: expected panic {panics:?}, got {other:?}"),
        };
    }
    match &res {
        Ok(ExecuteState::Proceed) => {}
        Err(StepError::Panic(r)) => fail!(format!("{name}:unexpected-panic:{r:?}"), "{c:?}: taken={} exact target {} is inside memory, got panic {r:?}", rf.taken, rf.target),
        other => fail!(format!("{name}:unexpected-result"), "{c:?}: {other:?}"),
    }
    obs.class("ok");
    let mut want = before;
    want[R_PC] = rf.new_pc(c.pc);
    if let Some((a, v)) = rf.link {
        want[a as usize] = v;
    }
    if let Some(a) = &alt {
        if after[R_PC] == a.new_pc(c.pc) {
            want[R_PC] = a.new_pc(c.pc);
        }
    }
    if let Some((a, _)) = rf.link {
        ensure_eq!(after[a as usize], want[a as usize], format!("{name}:return-address"), "{c:?}: return register {a:#04x}");
    }
    if rf.taken {
        ensure_eq!(after[R_PC], want[R_PC], format!("{name}:target"), "{c:?}: $pc after the taken jump (exact target {})", rf.target);
    } else {
        ensure_eq!(after[R_PC], want[R_PC], format!("{name}:untaken-pc"), "{c:?}: $pc after the untaken jump");
    }
    for i in 0..NREGS {
        if is_gas_reg(i) {
            ensure!(after[i] <= before[i], format!("{name}:gas-increased"), "gas register {i:#04x}");
        } else {
            ensure_eq!(after[i], want[i], format!("{name}:other-register-changed"), "{c:?}: register {i:#04x}");
        }
    }
    Ok(())
}

/// dynamic register values aimed at the boundaries of jump `j` for the given `$pc`, `$is`, imm
fn aimed_dynamic(j: &JumpOp, pc: u64, is: u64, imm: u64) -> Vec<u64> {
    let mut v: Vec<u64> = vec![
        0, 1, 2, MEM / 4 - 1, MEM / 4, MEM - 1, MEM, MEM + 1,
        (1 << 62) - 1, 1 << 62, (1 << 62) + 1, 1 << 63,
        u64::MAX - 1, u64::MAX,
        u64::MAX.wrapping_sub(imm), u64::MAX.wrapping_sub(imm).wrapping_sub(1), u64::MAX.wrapping_sub(imm).wrapping_add(1),
        (u64::MAX / 4).wrapping_sub(imm), (u64::MAX / 4).wrapping_sub(imm).wrapping_add(1),
    ];
    // r0: the dynamic value for which the exact target is VM_MAX_RAM (resp. 0 for backward jumps)
    let r0: i128 = match j.base {
        Base::Is => (MEM - is) as i128 / 4 - imm as i128,
        Base::Forward => (MEM - pc) as i128 / 4 - imm as i128 - 1,
        Base::Backward => pc as i128 / 4 - imm as i128 - 1,
        Base::Register => MEM as i128 - 4 * imm as i128,
    };
    for d in -2i128..=2 {
        let x = r0 + d;
        if (0..=u64::MAX as i128).contains(&x) {
            v.push(x as u64);
        }
    }
    v.sort();
    v.dedup();
    v
}

fn imm_set(bits: u32) -> Vec<u32> {
    if bits == 0 {
        return vec![0];
    }
    let max = (1u32 << bits) - 1;
    let mut v = vec![0, 1, 2, max / 2, max - 1, max];
    v.sort();
    v.dedup();
    v
}

fn pc_is_set() -> Vec<(u64, u64)> {
    let mut v = vec![];
    for is in [0u64, 3, 4, 10_368, MEM / 2, MEM - 4096, MEM - 8, MEM - 4, MEM - 1] {
        for d in [0u64, 4, 5, 8, 4000, MEM / 2, MEM] {
            let pc = is.saturating_add(d).min(MEM - 1);
            v.push((pc, is));
            let pc4 = pc & !3;
            if pc4 >= is {
                v.push((pc4, is));
            }
        }
    }
    v.sort();
    v.dedup();
    v
}

/// every jump × ($pc,$is) lattice × immediates × dynamic values at the memory boundaries ×
/// condition operands; plus JAL return registers and all register ids in every role
fn enumerate_jumps(_ctx: &Ctx, shard: usize, nshards: usize, sink: &mut dyn FnMut(JumpCase) -> bool) {
    let mut k = 0usize;
    let mut emit = |c: JumpCase| -> bool {
        k += 1;
        if k % nshards != shard {
            return true;
        }
        sink(c)
    };
    let conds: [(u64, u64); 5] = [(0, 0), (1, 0), (0, 1), (7, 7), (u64::MAX, u64::MAX - 1)];
    for j in JUMPS.iter() {
        let nregs = j.shape.regs();
        for &(pc, is) in &pc_is_set() {
            for &imm in &imm_set(j.shape.imm_bits()) {
                let dyns = if j.dynamic.is_some() { aimed_dynamic(j, pc, is, imm as u64) } else { vec![0] };
                for &d in &dyns {
                    for &(ca, cb) in &conds {
                        let mut c = JumpCase { op: j.byte, regs: [0x10, 0x11, 0x12], imm, vals: [0; 3], pc, is };
                        match j.cond {
                            Cond::Always => {}
                            Cond::NonZero => c.vals[0] = ca,
                            Cond::NotEqual => (c.vals[0], c.vals[1]) = (ca, cb),
                        }
                        if let Some(i) = j.dynamic {
                            c.vals[i] = d;
                        }
                        if j.base == Base::Register {
                            c.vals[0] = 0xDEAD;
                        }
                        if !emit(c) {
                            return;
                        }
                        if j.cond == Cond::Always {
                            break;
                        }
                    }
                }
            }
        }
        // all register ids in every role (reserved sources such as $pc, $is, $hp, $one; JAL return register)
        for role in 0..nregs {
            for r in 0..64u8 {
                for &(pc, is) in &[(10_400u64, 10_368u64), (MEM - 4, 10_368), (4, 0)] {
                    for &imm in &imm_set(j.shape.imm_bits()) {
                        for vals in [[0u64, 0, 0], [1, 2, 3], [MEM, MEM / 4, 9], [u64::MAX, 5, u64::MAX]] {
                            let mut c = JumpCase { op: j.byte, regs: [0x10, 0x11, 0x12], imm, vals, pc, is };
                            c.regs[role] = r;
                            if !emit(c.clone()) {
                                return;
                            }
                            // the same register in the next role too
                            if nregs > 1 {
                                c.regs[(role + 1) % nregs] = r;
                                if !emit(c) {
                                    return;
                                }
                            }
                        }
                    }
                }
            }
        }
    }
}

fn jump_case() -> impl Strategy<Value = JumpCase> {
    (
        0usize..JUMPS.len(),
        prop_oneof![6 => Just(None), 2 => (0u8..64, 0u8..64, 0u8..64).prop_map(Some), 1 => (16u8..64).prop_map(|r| Some((r, r, 0x12))), 1 => (16u8..64).prop_map(|r| Some((0x10, r, r)))],
        (any::<u16>(), 0u32..(1 << 24), any::<bool>()),
        // $is, $pc - $is
        (prop_oneof![3 => Just(10_368u64), 1 => Just(0u64), 2 => 0u64..MEM, 1 => (0u64..64).prop_map(|k| MEM - 1 - k)], prop_oneof![3 => (0u64..2000).prop_map(|k| 4 * k), 1 => 0u64..MEM, 1 => Just(0u64)]),
        // condition operands
        prop_oneof![2 => (gens::word(), gens::word()), 1 => gens::word().prop_map(|x| (x, x)), 1 => Just((0u64, 0u64)), 1 => gens::word().prop_map(|x| (x, 0))],
        // dynamic: selector into the aimed set, or free
        (any::<u16>(), prop_oneof![2 => Just(None), 1 => gens::word().prop_map(Some), 1 => (0u64..MEM / 2).prop_map(Some)]),
    )
        .prop_map(|(ji, regs, (imm_sel, imm_raw, imm_free), (is, d), (ca, cb), (dsel, dfree))| {
            let j = &JUMPS[ji];
            let bits = j.shape.imm_bits();
            let imm = if bits == 0 {
                0
            } else if imm_free {
                imm_raw & ((1 << bits) - 1)
            } else {
                let s = imm_set(bits);
                s[gens::pick(imm_sel, s.len())]
            };
            let pc = is.saturating_add(d).min(MEM - 1);
            let is = is.min(pc);
            let mut vals = [ca, cb, 0];
            if j.cond == Cond::Always {
                vals = [0xDEAD, 0xBEEF, 0];
            }
            if let Some(i) = j.dynamic {
                vals[i] = match dfree {
                    Some(x) => x,
                    None => {
                        let a = aimed_dynamic(j, pc, is, imm as u64);
                        a[gens::pick(dsel, a.len())]
                    }
                };
            }
            let regs = match regs {
                None => [0x10u8, 0x11, 0x12],
                Some((a, b, c)) => [a, b, c],
            };
            JumpCase { op: j.byte, regs, imm, vals, pc, is }
        })
}

// ------------------------------------------------------------------ (b) traces

/// aimed edge sequences appended to the G-PROG grammar (assembled into `Tpl::Raw` words)
#[derive(Debug, Clone, Copy, PartialEq, Eq)]
enum Edge {
    /// JMP to `$ssp + 4·delta` (0: first non-executable address)
    ToSsp(i8),
    /// JMPB to `$is + 4 − 4·k` (k ≥ 2: below `$is`)
    BelowIs(u8),
    /// JMP to `$hp` (readable, not executable)
    ToHeap,
    /// JMP to `$sp + 8` (unallocated)
    ToGap,
    /// JMPF by a huge register (saturating arithmetic)
    FarForward(bool),
    /// JMPB by a huge register
    FarBackward,
    /// JAL call of a two-instruction subroutine that returns with `JAL $zero, ret, 0`
    Subroutine,
    /// JAL with a reserved / zero return register
    JalRet(u8),
    /// counted backward loop with JNZB and a dynamic register
    Loop(u8),
}

fn edge_words(e: Edge) -> Vec<u32> {
    let (s0, s1) = (0x34u8, 0x35u8);
    let w = |v: &mut Vec<u32>, i: fuel_asm::Instruction| v.push(i.into());
    let mut v = vec![];
    match e {
        Edge::ToSsp(d) => {
            w(&mut v, op::sub(s0, RegId::SSP, RegId::IS));
            w(&mut v, op::divi(s0, s0, 4));
            if d >= 0 {
                w(&mut v, op::addi(s0, s0, d as u16));
            } else {
                w(&mut v, op::subi(s0, s0, d.unsigned_abs() as u16));
            }
            v.push(isa_word("JMP", &[s0 as u32]));
        }
        Edge::BelowIs(k) => {
            w(&mut v, op::sub(s0, RegId::PC, RegId::IS));
            w(&mut v, op::divi(s0, s0, 4));
            w(&mut v, op::jmpb(s0, k as u32));
        }
        Edge::ToHeap => {
            w(&mut v, op::sub(s0, RegId::HP, RegId::IS));
            w(&mut v, op::divi(s0, s0, 4));
            v.push(isa_word("JMP", &[s0 as u32]));
        }
        Edge::ToGap => {
            w(&mut v, op::sub(s0, RegId::SP, RegId::IS));
            w(&mut v, op::divi(s0, s0, 4));
            w(&mut v, op::addi(s0, s0, 2));
            v.push(isa_word("JMP", &[s0 as u32]));
        }
        Edge::FarForward(max) => {
            if max {
                w(&mut v, op::not(s0, RegId::ZERO));
            } else {
                w(&mut v, op::movi(s0, 1 << 17));
                w(&mut v, op::slli(s0, s0, 7)); // 2^24 instructions = 2^26 bytes
            }
            w(&mut v, op::jmpf(s0, 0));
        }
        Edge::FarBackward => {
            w(&mut v, op::not(s0, RegId::ZERO));
            w(&mut v, op::jmpb(s0, 3));
        }
        Edge::Subroutine => {
            w(&mut v, op::jal(s1, RegId::PC, 2)); // call: to +2
            w(&mut v, op::jmpf(RegId::ZERO, 2)); // after the return: skip the subroutine
            w(&mut v, op::addi(s0, s0, 1)); // subroutine body
            w(&mut v, op::jal(RegId::ZERO, s1, 0)); // return
        }
        Edge::JalRet(r) => {
            w(&mut v, op::jal(r & 0x3f, RegId::PC, 1));
        }
        Edge::Loop(n) => {
            w(&mut v, op::movi(s0, n as u32));
            w(&mut v, op::movi(s1, 1));
            w(&mut v, op::subi(s0, s0, 1)); // loop head
            w(&mut v, op::noop());
            w(&mut v, op::jnzb(s0, s1, 0)); // back by (1 + 0 + 1) instructions
        }
    }
    v
}

fn isa_word(name: &str, fields: &[u32]) -> u32 {
    let snap = isa::snapshot();
    let o = snap.iter().find(|o| o.name == name).expect("mnemonic in the ISA snapshot");
    o.shape.pack(o.byte, &Fields::of(fields))
}

fn edge() -> impl Strategy<Value = Edge> {
    prop_oneof![
        3 => (-2i8..3).prop_map(Edge::ToSsp),
        2 => (1u8..5).prop_map(Edge::BelowIs),
        1 => Just(Edge::ToHeap),
        1 => Just(Edge::ToGap),
        1 => any::<bool>().prop_map(Edge::FarForward),
        1 => Just(Edge::FarBackward),
        3 => Just(Edge::Subroutine),
        1 => (0u8..64).prop_map(Edge::JalRet),
        2 => (1u8..6).prop_map(Edge::Loop),
    ]
}

#[derive(Debug, Clone, Serialize, Deserialize)]
pub struct TraceCase {
    pub world: WorldSpec,
}

fn trace_case() -> impl Strategy<Value = TraceCase> {
    // most worlds get a small gas budget: unguarded loops run until the gas is gone
    let gas_cap = prop_oneof![6 => 200u64..1500, 3 => 1500u64..6000, 1 => Just(u64::MAX)];
    (world::world(prog::Weights([4, 3, 10, 1, 3, 0, 1, 0, 1, 2]), 40, 2), prop::collection::vec((edge(), any::<u16>()), 0..4), gas_cap).prop_map(|(mut world, edges, gas_cap)| {
        world.gas_limit = world.gas_limit.min(gas_cap);
        for (e, sel) in edges {
            // anywhere before the final (end) template
            let n = world.script.len().max(1);
            let at = gens::pick(sel, n);
            let words: Vec<Tpl> = edge_words(e).into_iter().map(Tpl::Raw).collect();
            let at = at.min(world.script.len().saturating_sub(1));
            world.script.splice(at..at, words);
        }
        TraceCase { world }
    })
}

#[derive(Clone)]
struct Ev {
    index: u64,
    pc: u64,
    raw: Option<u32>,
    pre: RegFile,
}

fn regs_of(r: &[u64]) -> RegFile {
    let mut f = [0u64; NREGS];
    f.copy_from_slice(&r[..NREGS]);
    f
}

/// streaming monitor: checks every step against the registers seen at the next event
#[derive(Default)]
struct Monitor {
    prev: Option<Ev>,
    failure: Option<Failure>,
    steps: u64,
    n_jumps: u64,
    n_back: u64,
    n_untaken: u64,
    n_jal: u64,
    n_plain: u64,
    saturating: bool,
    in_call: bool,
    notes: Vec<&'static str>,
    classes: Vec<String>,
}

impl Monitor {
    /// the region / readability requirement on an event
    fn check_event(ev: &Ev) -> Check {
        let (pc, is, ssp, i) = (ev.pc, ev.pre[R_IS], ev.pre[R_SSP], ev.index);
        ensure!(is <= pc && pc < ssp, "trace:executed-outside-executable-region", "step {i}: instruction at $pc={pc} executed with $is={is} $ssp={ssp}");
        ensure!(ev.raw.is_some(), "trace:executed-unreadable-pc", "step {i}: instruction at unreadable $pc={pc} executed");
        Ok(())
    }

    /// `ev` executed successfully and left the registers `post`; `last`: the run ended after it
    /// (`ended_without_panic`: there is no panic receipt at all)
    fn check_success(&mut self, ev: &Ev, post: &RegFile, ended_without_panic: bool) -> Check {
        let (pc, is, i) = (ev.pc, ev.pre[R_IS], ev.index);
        let Some(raw) = ev.raw else { return Ok(()) };
        let opcode = (raw >> 24) as u8;
        if fuel_asm::Instruction::try_from(raw).is_err() {
            self.notes.push("undecodable instruction word did not panic");
            return Ok(());
        }
        if let Some(j) = jump_by_byte(opcode) {
            let fields = j.shape.extract(raw);
            if (0..j.shape.regs()).any(|k| is_gas_reg(fields.v[k] as usize)) {
                self.notes.push("jump reading a gas register (value after the charge)");
            }
            // gas registers are read after the gas charge; a jump changes them in no other way
            let src = |r: u8| if is_gas_reg(r as usize) { post[r as usize] } else { ev.pre[r as usize] };
            let rf = reference(j, &fields, &src, pc, is);
            let mut ok_pcs = vec![];
            let mut must_panic = !rf.panics().is_empty();
            if !must_panic {
                ok_pcs.push(rf.new_pc(pc));
            }
            if j.base == Base::Register && rf.link.is_some() && fields.v[0] == fields.v[1] {
                self.notes.push("JAL with rA == rB (both orders accepted)");
                let v = |r: u8| if r as u32 == fields.v[0] { pc + 4 } else { src(r) };
                let alt = reference(j, &fields, &v, pc, is);
                if alt.panics().is_empty() {
                    ok_pcs.push(alt.new_pc(pc));
                    must_panic = false;
                }
            }
            ensure!(!must_panic, format!("trace:{}:missing-panic", j.name), "step {i}: {} at $pc={pc} $is={is}: exact target {} taken={} requires {:?}, but it went on to $pc={}", j.name, rf.target, rf.taken, rf.panics(), post[R_PC]);
            self.n_jumps += 1;
            if ev.pre[R_FP] != 0 && !self.in_call {
                self.in_call = true;
                self.classes.push("jump-inside-called-contract".into());
            }
            if rf.taken {
                if rf.target < pc as i128 {
                    self.n_back += 1;
                }
                ensure!(ok_pcs.contains(&post[R_PC]), format!("trace:{}:target", j.name), "step {i}: {} word {raw:#010x} at $pc={pc} $is={is} landed on {} instead of {ok_pcs:?}", j.name, post[R_PC]);
            } else {
                self.n_untaken += 1;
                ensure!(ok_pcs.contains(&post[R_PC]), format!("trace:{}:untaken-pc", j.name), "step {i}: untaken {} at $pc={pc} went to {} instead of {}", j.name, post[R_PC], pc + 4);
            }
            if let Some((a, v)) = rf.link {
                self.n_jal += 1;
                ensure_eq!(post[a as usize], v, "trace:JAL:return-address", "step {i}: JAL at $pc={pc} return register {a:#04x}");
            }
            for r in 0..NREGS {
                let linked = matches!(rf.link, Some((a, _)) if a as usize == r);
                if r != R_PC && !is_gas_reg(r) && !linked {
                    ensure_eq!(post[r], ev.pre[r], format!("trace:{}:other-register-changed", j.name), "step {i}: register {r:#04x}");
                }
            }
            return Ok(());
        }
        if matches!(opcode, CALL | RET | RETD | RVRT) {
            return Ok(());
        }
        self.n_plain += 1;
        let name = || isa::snapshot().iter().find(|o| o.byte == opcode).map(|o| o.name.clone()).unwrap_or_else(|| format!("{opcode:#04x}"));
        ensure_eq!(post[R_PC], pc + 4, format!("trace:non-jump-pc:{}", name()), "step {i}: {} word {raw:#010x} at $pc={pc} succeeded", name());
        if ended_without_panic {
            fail!("trace:run-ended-after-nonterminal", "step {i}: the run ended after a successful {} without a panic receipt", name());
        }
        Ok(())
    }

    /// `ev` is the last event and the panic receipt points at it
    fn check_panicked(&mut self, ev: &Ev, reason: PanicReason) -> Check {
        let (pc, is, i) = (ev.pc, ev.pre[R_IS], ev.index);
        let Some(raw) = ev.raw else { return Ok(()) };
        if fuel_asm::Instruction::try_from(raw).is_err() {
            return Ok(());
        }
        let Some(j) = jump_by_byte((raw >> 24) as u8) else { return Ok(()) };
        let fields = j.shape.extract(raw);
        let uses_gas = (0..j.shape.regs()).any(|k| is_gas_reg(fields.v[k] as usize));
        if reason == PanicReason::OutOfGas || uses_gas {
            return Ok(());
        }
        let src = |r: u8| ev.pre[r as usize];
        let rf = reference(j, &fields, &src, pc, is);
        let mut adm = rf.panics();
        if j.base == Base::Register && rf.link.is_some() && fields.v[0] == fields.v[1] {
            let v = |r: u8| if r as u32 == fields.v[0] { pc + 4 } else { src(r) };
            adm.extend(reference(j, &fields, &v, pc, is).panics());
        }
        self.classes.push(format!("jump-panic:{reason:?}"));
        ensure!(adm.contains(&reason), format!("trace:{}:unexpected-panic:{reason:?}", j.name), "step {i}: {} at $pc={pc} $is={is} panicked with {reason:?}; exact target {} taken={} admits {adm:?}", j.name, rf.target, rf.taken);
        self.saturating |= rf.saturating;
        Ok(())
    }

    fn on_event(&mut self, ev: Ev) {
        self.steps += 1;
        if self.failure.is_some() {
            return;
        }
        let r = Self::check_event(&ev).and_then(|_| match self.prev.take() {
            Some(p) => self.check_success(&p, &ev.pre, false),
            None => Ok(()),
        });
        if let Err(f) = r {
            self.failure = Some(f);
        }
        self.prev = Some(ev);
    }
}

fn check_trace(case: &TraceCase, obs: &mut Obs) -> Check {
    let b = match case.world.build() {
        Ok(b) => b,
        Err(_) => {
            obs.class("world-invalid");
            return Ok(());
        }
    };
    let ready = match b.ready() {
        Ok(r) => r,
        Err(_) => {
            obs.class("world-not-ready");
            return Ok(());
        }
    };
    let mut vm = b.new_vm(b.storage.clone());
    let mon: RefCell<Monitor> = RefCell::new(Monitor::default());
    // (registers, $pc readable) at the end of the run
    let fin: RefCell<Option<(RegFile, bool)>> = RefCell::new(None);
    let out = run_stepping(
        &mut vm,
        ready,
        b.gas_limit + 16,
        |s| mon.borrow_mut().on_event(Ev { index: s.index, pc: s.pc, raw: s.raw, pre: regs_of(s.vm.registers()) }),
        |vm, ended| {
            if ended {
                let r = regs_of(vm.registers());
                let readable = vm.memory().read_bytes::<_, 4>(r[R_PC]).is_ok();
                *fin.borrow_mut() = Some((r, readable));
            }
        },
    );
    let out = match out {
        Ok(o) => o,
        Err(e) => return Err(Failure::new("harness-step-budget", e)),
    };
    let mut mon = mon.into_inner();
    obs.note("steps", mon.steps);
    if let Some(f) = mon.failure.take() {
        return Err(f);
    }
    if out.state.is_err() {
        // interpreter error other than a panic (none is expected with MemoryStorage)
        obs.class("vm-error");
        return Ok(());
    }
    let panic = out.receipts.iter().find_map(|r| match r {
        Receipt::Panic { pc, is, reason, .. } => Some((*pc, *is, *reason.reason())),
        _ => None,
    });
    let fetch_reasons = [PanicReason::MemoryNotExecutable, PanicReason::MemoryOverflow, PanicReason::UninitalizedMemoryAccess];
    match (mon.prev.take(), fin.into_inner()) {
        (Some(last), Some((final_regs, final_readable))) => {
            let at_event = matches!(panic, Some((ppc, pis, _)) if ppc == last.pc && pis == last.pre[R_IS]);
            if at_event {
                mon.check_panicked(&last, panic.expect("at_event").2)?;
            } else {
                mon.check_success(&last, &final_regs, panic.is_none())?;
            }
            // a panic at an address that no event was reported for is a failed fetch
            if let Some((ppc, _, reason)) = panic {
                if !at_event {
                    let (fis, fssp) = (final_regs[R_IS], final_regs[R_SSP]);
                    ensure_eq!(final_regs[R_PC], ppc, "trace:panic-pc-differs-from-$pc", "panic receipt pc vs final $pc");
                    ensure!(fetch_reasons.contains(&reason), format!("trace:panic-at-unvisited-pc:{reason:?}"), "run ended with {reason:?} at $pc={ppc} for which no step event was reported (last event at {})", last.pc);
                    let inside = fis <= ppc && ppc < fssp;
                    obs.class(&format!("fetch-failed:{reason:?}"));
                    if reason == PanicReason::MemoryNotExecutable {
                        ensure!(!inside, "fetch:MemoryNotExecutable-inside-region", "fetch at $pc={ppc} refused although $is={fis} <= $pc < $ssp={fssp}");
                        ensure!(final_readable, "fetch:MemoryNotExecutable-for-unreadable-pc", "fetch at unreadable $pc={ppc} reported MemoryNotExecutable");
                    } else {
                        ensure!(!final_readable, format!("fetch:{reason:?}-for-readable-pc"), "fetch at $pc={ppc} failed with {reason:?} although $pc..$pc+4 is readable");
                    }
                }
            }
        }
        _ => obs.class("no-events"),
    }
    match panic {
        Some((_, _, reason)) => obs.class(&format!("end:panic:{reason:?}")),
        None => obs.class("end:no-panic"),
    }
    for n in &mon.notes {
        obs.note(n, 1);
    }
    for c in &mon.classes {
        obs.class(c);
    }
    if mon.n_jumps > 0 {
        obs.class("has-jump");
    }
    if mon.n_untaken > 0 {
        obs.class("has-untaken-jump");
    }
    if mon.n_jal > 0 {
        obs.class("has-jal-link");
    }
    if mon.saturating {
        obs.class("saturating");
    }
    if mon.n_back > 0 {
        obs.class("taken-backward-jump");
    }
    if mon.n_back > 0 || mon.saturating {
        obs.class("non-trivial");
        obs.nontrivial(&(mon.steps, mon.n_jumps, mon.n_back, mon.n_jal, mon.n_plain, mon.saturating));
    }
    Ok(())
}


pub fn property() -> Property {
    Property {
        id: "C25",
        rule: "(a) single JI,JNEI,JNZI,JMP,JNE,JMPF,JMPB,JNZF,JNZB,JNEF,JNEB,JAL executed with Interpreter::instruction on an initialised script VM with $pc (< VM_MAX_RAM) and $is (<= $pc) planted, operand registers over 0..63 incl. reserved and repeated ids, dynamic values aimed at exact targets VM_MAX_RAM-8..+8, 0-8..+8, 2^62..2^64 (saturating), immediates {0,1,2,max/2,max-1,max} and random; expected taken/target/link/panic from exact integer arithmetic. (b) G-PROG worlds with jump-heavy weights plus aimed edge sequences (jump to $ssp-8..$ssp+8, below $is, to $hp, into the gap, beyond memory, JAL subroutine call/return, JAL with reserved return register, counted JNZB loop), single-stepped: every event inside [$is,$ssp) at readable $pc, every successful non-jump non-CALL/RET/RETD/RVRT moves $pc by 4, every jump lands on the reference target, a panic at an unvisited $pc is a fetch failure consistent with the region. Non-trivial = exact target outside 0..2^64 (saturating) or a taken backward jump; distinct by (a) (opcode, target class, imm, registers, $pc-$is, magnitude) (b) (steps, jumps, backward jumps, links, plain steps)".into(),
        assumptions: vec![
            "model::isa word layout and opcode table (C08)".into(),
            "jumps touch registers only, so part (a) reuses one VM per thread with all 64 registers reset before every case".into(),
            "$pc of an executing instruction is inside memory and not below $is (part (a) does not plant other values)".into(),
            "single-stepping reports exactly one event per executed instruction and does not change results (C32)".into(),
            "G-PROG world builder and stepping monitor (vm::world); readability of $pc..$pc+4 is taken from MemoryInstance::read_bytes (C23)".into(),
            "JAL with the same register as return and target register: both evaluation orders are accepted".into(),
        ],
        parts: vec![
            enum_part("jump-lattice", "12 jumps x 60+ ($pc,$is) pairs (aligned and unaligned, at 0, mid, and the last words of memory) x immediates {0,1,2,max/2,max-1,max} x dynamic values {0,1,2,VM_MAX_RAM/4-1..,VM_MAX_RAM+-1,2^62+-1,2^63,2^64-1-imm+-1,(2^64-1)/4-imm.., and r0-2..r0+2 where r0 makes the exact target VM_MAX_RAM (forward/absolute) or 0 (backward)} x 5 condition pairs; every register id 0..63 in every role (alone and repeated)", true, enumerate_jumps, check_jump),
            gen_part("jump-random", "random jump, registers (default/random/repeated), immediates, $pc/$is, condition operands, dynamic values aimed or free", (2_000_000, 60_000_000), |_c: &Ctx| jump_case(), check_jump),
            gen_part("trace", "G-PROG world (weights [4,3,10,1,3,0,1,0,1,2], <=40 templates, <=2 contracts) + 0..3 aimed edge sequences, single-stepped", (6_000, 200_000), |_c: &Ctx| trace_case(), check_trace),
        ],
        floors: vec![
            ("jump-random", "non-trivial", 0.10),
            ("jump-random", "saturating", 0.03),
            ("jump-random", "taken-backward", 0.03),
            ("jump-random", "untaken", 0.05),
            ("jump-random", "ok", 0.20),
            ("jump-random", "panic:MemoryOverflow", 0.05),
            ("trace", "has-jump", 0.30),
            ("trace", "taken-backward-jump", 0.05),
            ("trace", "has-untaken-jump", 0.05),
            ("trace", "has-jal-link", 0.03),
        ],
    }
}
