//! C13 — Sparse Merkle state persists completely in its node storage.
//!
//! One case = a C12 history. The original tree A runs it once over an enumerable storage; the
//! storage is snapshotted after every operation. For **every** cut point c the snapshot is
//! reloaded at A's root (tree B) and the rest of the history is applied to B; B must give A's
//! roots (= the model's) after every operation and the reference proofs for the queried keys.
//! Right after each reload a proof is requested for every present key, which walks every live
//! node of the tree. At one generated cut additionally: load at the empty root, storage built from
//! `nodes_from_set`, and fault injection (root node removed; another node removed).
use super::c12::{apply_lib, hist, key_spec, mk, op_kind, classify_step, resolve, signature, unfold, COp, Hist, KeySpec, MemStore, MemTree, H};
use crate::engine::*;
use crate::gens::pick;
use crate::model::smt as m;
use crate::{ensure, ensure_eq, fail};
use fuel_merkle::sparse::proof::{ExclusionLeaf, Proof};
use fuel_merkle::sparse::{in_memory, MerkleTreeError};
use proptest::prelude::*;
use serde::{Deserialize, Serialize};
use std::collections::BTreeSet;

#[derive(Debug, Clone, Serialize, Deserialize)]
pub struct Case {
    pub hist: Hist,
    /// cut used for the empty-root load, the nodes_from_set storage and the fault injection
    pub cut: u16,
    /// which stored node to remove (one damaged copy of the storage per selector)
    pub faults: Vec<u16>,
    /// keys whose proofs are compared after every operation (besides the operation's own key)
    pub queries: Vec<KeySpec>,
}

fn case(max_ops: usize) -> impl Strategy<Value = Case> {
    (hist(max_ops), any::<u16>(), prop::collection::vec(any::<u16>(), 1..=3), prop::collection::vec(key_spec(), 1..=2))
        .prop_map(|(hist, cut, faults, queries)| Case { hist, cut, faults, queries })
}

/// library proof in the model's vocabulary
pub fn to_ref(p: &Proof) -> m::RefProof {
    match p {
        Proof::Inclusion(i) => m::RefProof { side: i.proof_set.clone(), terminal: m::Terminal::Included },
        Proof::Exclusion(e) => m::RefProof {
            side: e.proof_set.clone(),
            terminal: match &e.leaf {
                ExclusionLeaf::Placeholder => m::Terminal::Empty,
                ExclusionLeaf::Leaf(d) => m::Terminal::Other { key: d.leaf_key, value_hash: d.leaf_value },
            },
        },
    }
}

fn short(k: &H) -> String {
    hex::encode(k)
}

/// proofs of `keys` must be produced and equal the reference proofs
fn proofs_match(t: &MemTree, rt: &m::RefTree, keys: &[H], what: &str, ctx: &str) -> Check {
    for k in keys {
        let p = t
            .generate_proof(&mk(k))
            .map_err(|e| Failure::new(format!("{what}:proof-error"), format!("{ctx}: generate_proof({}) failed: {e:?}", short(k))))?;
        ensure_eq!(to_ref(&p), rt.prove(k), format!("{what}:proof-differs"), "{ctx}: proof for {}", short(k));
    }
    Ok(())
}

/// continue `cops[from..]` on a tree that claims to be in state `from`; compare with the model after each op
#[allow(clippy::too_many_arguments)]
fn continue_history(
    t: &mut MemTree,
    from: usize,
    cops: &[COp],
    roots: &[H],
    trees: &[m::RefTree],
    maps: &[m::Map],
    queries: &[H],
    what: &str,
) -> Check {
    for i in from..cops.len() {
        let c = &cops[i];
        let kind = op_kind(&maps[i], c);
        apply_lib(t, c).map_err(|e| Failure::new(format!("{what}:op-error:{kind}"), format!("reload at {from}, step {i} {c:?}: {e}")))?;
        ensure_eq!(t.root(), roots[i + 1], format!("{what}:root-diverges:{kind}"), "reload at {from}, step {i} {c:?}");
        let mut ks = queries.to_vec();
        ks.push(*c.key());
        proofs_match(t, &trees[i + 1], &ks, what, &format!("reload at {from}, after step {i} {c:?}"))?;
    }
    Ok(())
}

fn run(case: &Case, obs: &mut Obs) -> Check {
    let h = &case.hist;
    let (cops, maps) = unfold(h);
    let n = cops.len();
    let trees: Vec<m::RefTree> = maps.iter().map(m::RefTree::build).collect();
    let roots: Vec<H> = trees.iter().map(|t| t.root).collect();
    let queries: Vec<H> = case.queries.iter().map(|q| resolve(&h.bases, q)).collect();

    let mut labels = BTreeSet::new();
    let mut kinds = vec![];
    for i in 0..n {
        classify_step(&maps[i], &cops[i], &mut labels);
        kinds.push(op_kind(&maps[i], &cops[i]));
    }

    // original tree A, storage snapshot after every operation
    let mut a = MemTree::new(MemStore::default());
    let mut snaps = vec![a.storage().clone()];
    for i in 0..n {
        let kind = kinds[i];
        apply_lib(&mut a, &cops[i]).map_err(|e| Failure::new(format!("original:op-error:{kind}"), format!("step {i} {:?}: {e}", cops[i])))?;
        ensure_eq!(a.root(), roots[i + 1], format!("original:root-mismatch:{kind}"), "step {i} {:?}", cops[i]);
        snaps.push(a.storage().clone());
    }
    obs.note("stored-nodes-final", snaps[n].map.len() as u64);
    obs.note("live-nodes-final", trees[n].nodes.len() as u64);
    let stale_total: usize = (0..=n).map(|i| snaps[i].map.keys().filter(|k| !trees[i].nodes.contains_key(*k)).count()).sum();
    obs.note("stale-nodes-in-snapshots", stale_total as u64);

    // reload at every cut
    for c in 0..=n {
        let mut b = MemTree::load(snaps[c].clone(), &roots[c])
            .map_err(|e| Failure::new("reload:load-error", format!("load at cut {c} of {n} (root {}) failed: {e:?}", short(&roots[c]))))?;
        ensure_eq!(b.root(), roots[c], "reload:root-after-load", "cut {c}");
        // every present key: walks every live node of the persisted tree
        let mut ks: Vec<H> = maps[c].keys().copied().collect();
        ks.extend(queries.iter().copied());
        proofs_match(&b, &trees[c], &ks, "reload", &format!("right after load at cut {c}"))?;
        continue_history(&mut b, c, &cops, &roots, &trees, &maps, &queries, "reload")?;
    }

    let c = pick(case.cut, n + 1);
    if c > 0 && c < n {
        labels.insert("selected-cut-inside");
    }

    // load at the empty root, over whatever the storage holds at the cut: an empty tree
    {
        let mut e = MemTree::load(snaps[c].clone(), &m::ZERO).map_err(|e| Failure::new("empty-root:load-error", format!("cut {c}: {e:?}")))?;
        ensure_eq!(e.root(), m::ZERO, "empty-root:root", "cut {c}");
        let empty = m::RefTree::build(&m::Map::new());
        proofs_match(&e, &empty, &queries, "empty-root", &format!("load at empty root over the storage of cut {c}"))?;
        let mut em = m::Map::new();
        for i in c..n {
            let kind = op_kind(&em, &cops[i]);
            apply_lib(&mut e, &cops[i]).map_err(|er| Failure::new(format!("empty-root:op-error:{kind}"), format!("cut {c} step {i} {:?}: {er}", cops[i])))?;
            cops[i].apply(&mut em);
            ensure_eq!(e.root(), m::root(&em), format!("empty-root:root-diverges:{kind}"), "cut {c} step {i} {:?}", cops[i]);
        }
        if c < n {
            labels.insert("empty-root-load-then-ops");
        }
    }

    // storage made of the nodes returned for the set
    for cc in [c, n] {
        let (r, nodes) = in_memory::MerkleTree::nodes_from_set(maps[cc].iter().map(|(k, v)| (mk(k), v.clone())));
        ensure_eq!(r, roots[cc], "nodes_from_set:root", "cut {cc}");
        let mut st = MemStore::default();
        for (k, p) in &nodes {
            st.map.insert(*k, *p);
        }
        for (hash, rn) in &trees[cc].nodes {
            let Some(p) = st.map.get(hash) else {
                fail!("nodes_from_set:node-missing", "cut {cc}: node {} (height {}) of the compact tree is not among the returned nodes", short(hash), rn.height);
            };
            let want = (rn.height, if rn.leaf { 0u8 } else { 1u8 }, rn.lo, rn.hi);
            ensure_eq!(*p, want, "nodes_from_set:node-content", "cut {cc}: node {}", short(hash));
        }
        obs.note("nodes_from_set-extra-nodes", (st.map.len() - trees[cc].nodes.len()) as u64);
        let mut t = MemTree::load(st, &r).map_err(|e| Failure::new("nodes_from_set:load-error", format!("cut {cc}: {e:?}")))?;
        let ks: Vec<H> = maps[cc].keys().copied().chain(queries.iter().copied()).collect();
        proofs_match(&t, &trees[cc], &ks, "nodes_from_set", &format!("right after load at cut {cc}"))?;
        continue_history(&mut t, cc, &cops, &roots, &trees, &maps, &queries, "nodes_from_set")?;
    }

    // fault injection at the selected cut
    if roots[c] != m::ZERO {
        let mut s = snaps[c].clone();
        ensure!(s.map.remove(&roots[c]).is_some(), "reload:root-node-not-stored", "cut {c}: storage has no entry for the root {}", short(&roots[c]));
        match MemTree::load(s, &roots[c]) {
            Err(MerkleTreeError::LoadError(k)) => {
                ensure_eq!(k, roots[c], "fault:load-error-names-other-key", "cut {c}");
                labels.insert("fault-root-removed-load-fails");
            }
            Err(e) => fail!("fault:root-removed-other-error", "cut {c}: {e:?}"),
            Ok(t) => fail!("fault:load-succeeds-without-root-node", "cut {c}: load returned a tree with root {}", short(&t.root())),
        }
        for f in &case.faults {
            let keys: Vec<H> = snaps[c].map.keys().copied().filter(|k| *k != roots[c]).collect();
            if keys.is_empty() {
                labels.insert("fault-no-other-node");
                continue;
            }
            let x = keys[pick(*f, keys.len())];
            let live = trees[c].nodes.contains_key(&x);
            labels.insert(if live { "fault-live-node-removed" } else { "fault-stale-node-removed" });
            let mut s = snaps[c].clone();
            s.map.remove(&x);
            let mut t = match MemTree::load(s, &roots[c]) {
                Ok(t) => t,
                Err(_) => {
                    labels.insert("fault-load-errs");
                    continue;
                }
            };
            ensure_eq!(t.root(), roots[c], "fault:silent-wrong-root-after-load", "cut {c}, removed {}", short(&x));
            let mut erred = false;
            let mut i = c;
            loop {
                // reads: an error is fine, an answer must be the model's
                let mut ks: Vec<H> = maps[i].keys().copied().collect();
                ks.extend(queries.iter().copied());
                for k in &ks {
                    match t.generate_proof(&mk(k)) {
                        Err(_) => erred = true,
                        Ok(p) => ensure_eq!(
                            to_ref(&p), trees[i].prove(k), "fault:silent-wrong-proof",
                            "cut {c}, removed {} node {}, state {i}: proof for {}", if live { "live" } else { "stale" }, short(&x), short(k)
                        ),
                    }
                }
                if i == n {
                    break;
                }
                let kind = op_kind(&maps[i], &cops[i]);
                match apply_lib(&mut t, &cops[i]) {
                    Ok(()) => ensure_eq!(
                        t.root(), roots[i + 1], format!("fault:silent-wrong-root:{kind}"),
                        "cut {c}, removed {} node {}, step {i} {:?} succeeded", if live { "live" } else { "stale" }, short(&x), cops[i]
                    ),
                    Err(_) => {
                        erred = true;
                        // a refused update must not leave a third root behind
                        let r = t.root();
                        ensure!(
                            r == roots[i] || r == roots[i + 1], format!("fault:wrong-root-after-refused-op:{kind}"),
                            "cut {c}, removed {}, step {i} {:?} failed and left root {}", short(&x), cops[i], short(&r)
                        );
                        labels.insert("fault-update-refused");
                        break;
                    }
                }
                i += 1;
            }
            if live {
                labels.insert(if erred { "fault-live-detected-by-error" } else { "fault-live-never-touched-or-healed" });
            }
        }
    }

    // non-trivial: some cut lies strictly inside, after an insert of a key that is deleted later
    let mut nt = false;
    for j in 1..n {
        if kinds[j] == "delete-present" {
            let k = cops[j].key();
            if (0..j).any(|i| matches!(&cops[i], COp::Ins(k2, _) if k2 == k)) {
                nt = true;
            }
        }
    }
    for l in &labels {
        obs.class(l);
    }
    if nt {
        obs.class("NONTRIVIAL");
        obs.nontrivial(&signature(&kinds, &maps[n]));
    }
    Ok(())
}

pub fn property() -> Property {
    Property {
        id: "C13",
        rule: "C12 histories (vec(Op,0..=24|48) over clustered keys) run once on tree A over an enumerable node storage, snapshot after every op; for EVERY cut c: B = load(snapshot[c], A.root) must succeed, give the reference proof for every present key (walks every live node) and, continuing ops[c..] on its own storage copy, the model root and reference proofs (op key + 1-2 generated keys) after every op; at one generated cut: load at the empty root over that storage behaves as an empty tree under ops[c..]; storage built from nodes_from_set(map[c]) contains every node of the compact tree with the right content, loads and continues likewise; fault injection: root node removed => load is Err(LoadError(root)); 1-3 other stored nodes removed (one at a time) => every later proof/update either errs or equals the model's answer, a refused update leaves the old or the new root. Non-trivial = history deleting a present key inserted earlier (some cut lies between); distinct by op-kind sequence + leaf depths of the final trie".into(),
        assumptions: vec![
            "sha2 crate is correct".into(),
            "model::smt is the compact sparse Merkle tree of the statement".into(),
            "a crash point is modelled as the storage content between two operations (no torn writes)".into(),
        ],
        parts: vec![gen_part(
            "reload",
            "reload at every cut, twin continuation, empty root, nodes_from_set, fault injection",
            (24_000, 100_000),
            |c: &Ctx| case(c.tier.pick(24, 48)),
            run,
        )],
        floors: vec![
            ("reload", "NONTRIVIAL", 0.3),
            ("reload", "fault-live-node-removed", 0.3),
            ("reload", "fault-live-detected-by-error", 0.2),
        ],
    }
}
