//! C08 — Instruction encoding is a bijection on valid 32-bit words.
//!
//! Oracle: `model::isa` (opcode byte → argument shape; field positions and reserved masks are the
//! harness's own arithmetic). The table in force is parsed at run time from the
//! `impl_instructions!` invocation of `fuel-asm/src/lib.rs` (located through the `fuel-asm` path
//! dependency in the harness `Cargo.toml`); it is compared with the embedded snapshot
//! (differences are printed and counted as information, new opcodes are adopted) and with
//! `Opcode::try_from(u8)` for all 256 bytes (a disagreement is a failure). If the source cannot
//! be read or parsed the snapshot is in force and a note says so.
use crate::engine::*;
use crate::model::isa::{self, field_lattice, Fields, OpInfo, Shape, Table};
use crate::{ensure, ensure_eq, fail};
use fuel_asm::{op, Imm06, Imm12, Imm18, Imm24, Instruction, Opcode, RegId};
use proptest::prelude::*;
use serde::{Deserialize, Serialize};
use std::sync::OnceLock;

// ------------------------------------------------------------------ library bindings

macro_rules! unpack_op {
    (N, $o:expr) => {{
        let _ = $o;
        Fields::NONE
    }};
    (R, $o:expr) => {{
        let a = $o.unpack();
        Fields::of(&[a.to_u8() as u32])
    }};
    (RR, $o:expr) => {{
        let (a, b) = $o.unpack();
        Fields::of(&[a.to_u8() as u32, b.to_u8() as u32])
    }};
    (RRR, $o:expr) => {{
        let (a, b, c) = $o.unpack();
        Fields::of(&[a.to_u8() as u32, b.to_u8() as u32, c.to_u8() as u32])
    }};
    (RRRR, $o:expr) => {{
        let (a, b, c, d) = $o.unpack();
        Fields::of(&[a.to_u8() as u32, b.to_u8() as u32, c.to_u8() as u32, d.to_u8() as u32])
    }};
    (RRRI6, $o:expr) => {{
        let (a, b, c, i) = $o.unpack();
        Fields::of(&[a.to_u8() as u32, b.to_u8() as u32, c.to_u8() as u32, i.to_u8() as u32])
    }};
    (RRI12, $o:expr) => {{
        let (a, b, i) = $o.unpack();
        Fields::of(&[a.to_u8() as u32, b.to_u8() as u32, i.to_u16() as u32])
    }};
    (RI18, $o:expr) => {{
        let (a, i) = $o.unpack();
        Fields::of(&[a.to_u8() as u32, i.to_u32()])
    }};
    (I24, $o:expr) => {{
        let i = $o.unpack();
        Fields::of(&[i.to_u32()])
    }};
}

macro_rules! access_op {
    (N, $o:expr) => {{
        let _ = $o;
        Fields::NONE
    }};
    (R, $o:expr) => {
        Fields::of(&[$o.ra().to_u8() as u32])
    };
    (RR, $o:expr) => {
        Fields::of(&[$o.ra().to_u8() as u32, $o.rb().to_u8() as u32])
    };
    (RRR, $o:expr) => {
        Fields::of(&[$o.ra().to_u8() as u32, $o.rb().to_u8() as u32, $o.rc().to_u8() as u32])
    };
    (RRRR, $o:expr) => {
        Fields::of(&[$o.ra().to_u8() as u32, $o.rb().to_u8() as u32, $o.rc().to_u8() as u32, $o.rd().to_u8() as u32])
    };
    (RRRI6, $o:expr) => {
        Fields::of(&[$o.ra().to_u8() as u32, $o.rb().to_u8() as u32, $o.rc().to_u8() as u32, $o.imm06().to_u8() as u32])
    };
    (RRI12, $o:expr) => {
        Fields::of(&[$o.ra().to_u8() as u32, $o.rb().to_u8() as u32, $o.imm12().to_u16() as u32])
    };
    (RI18, $o:expr) => {
        Fields::of(&[$o.ra().to_u8() as u32, $o.imm18().to_u32()])
    };
    (I24, $o:expr) => {
        Fields::of(&[$o.imm24().to_u32()])
    };
}

// shorthand constructors `op::add(u8, u8, u8)`; they panic on out-of-range arguments
macro_rules! short_ctor {
    (N, $n:ident, $f:expr) => {{
        let _ = $f;
        op::$n()
    }};
    (R, $n:ident, $f:expr) => {
        op::$n($f.v[0] as u8)
    };
    (RR, $n:ident, $f:expr) => {
        op::$n($f.v[0] as u8, $f.v[1] as u8)
    };
    (RRR, $n:ident, $f:expr) => {
        op::$n($f.v[0] as u8, $f.v[1] as u8, $f.v[2] as u8)
    };
    (RRRR, $n:ident, $f:expr) => {
        op::$n($f.v[0] as u8, $f.v[1] as u8, $f.v[2] as u8, $f.v[3] as u8)
    };
    (RRRI6, $n:ident, $f:expr) => {
        op::$n($f.v[0] as u8, $f.v[1] as u8, $f.v[2] as u8, $f.v[3] as u8)
    };
    (RRI12, $n:ident, $f:expr) => {
        op::$n($f.v[0] as u8, $f.v[1] as u8, $f.v[2] as u16)
    };
    (RI18, $n:ident, $f:expr) => {
        op::$n($f.v[0] as u8, $f.v[1])
    };
    (I24, $n:ident, $f:expr) => {
        op::$n($f.v[0])
    };
}

// typed constructors `op::ADD::new(RegId, RegId, RegId)` through the *masking* `new`s
macro_rules! typed_ctor {
    (N, $N:ident, $f:expr) => {{
        let _ = $f;
        op::$N::new()
    }};
    (R, $N:ident, $f:expr) => {
        op::$N::new(RegId::new($f.v[0] as u8))
    };
    (RR, $N:ident, $f:expr) => {
        op::$N::new(RegId::new($f.v[0] as u8), RegId::new($f.v[1] as u8))
    };
    (RRR, $N:ident, $f:expr) => {
        op::$N::new(RegId::new($f.v[0] as u8), RegId::new($f.v[1] as u8), RegId::new($f.v[2] as u8))
    };
    (RRRR, $N:ident, $f:expr) => {
        op::$N::new(RegId::new($f.v[0] as u8), RegId::new($f.v[1] as u8), RegId::new($f.v[2] as u8), RegId::new($f.v[3] as u8))
    };
    (RRRI6, $N:ident, $f:expr) => {
        op::$N::new(RegId::new($f.v[0] as u8), RegId::new($f.v[1] as u8), RegId::new($f.v[2] as u8), Imm06::new($f.v[3] as u8))
    };
    (RRI12, $N:ident, $f:expr) => {
        op::$N::new(RegId::new($f.v[0] as u8), RegId::new($f.v[1] as u8), Imm12::new($f.v[2] as u16))
    };
    (RI18, $N:ident, $f:expr) => {
        op::$N::new(RegId::new($f.v[0] as u8), Imm18::new($f.v[1]))
    };
    (I24, $N:ident, $f:expr) => {
        op::$N::new(Imm24::new($f.v[0]))
    };
}

macro_rules! lib_bindings {
    ($($b:literal $N:ident $n:ident $s:ident),* $(,)?) => {
        /// the interpreter's per-opcode parser (`execute_op!` in executors/instruction.rs):
        /// `op::X::from_raw_args(args)`; None = mnemonic unknown to the snapshot
        fn raw_parse(byte: u8, args: [u8; 3]) -> Option<Result<Fields, ()>> {
            match byte {
                $($b => Some(op::$N::from_raw_args(args).map(|o| unpack_op!($s, o)).map_err(|_| ())),)*
                _ => None,
            }
        }
        /// (snapshot byte, snapshot name, unpack(), accessors) of a decoded instruction
        #[allow(unreachable_patterns)]
        fn instr_view(i: &Instruction) -> Option<(u8, &'static str, Fields, Fields)> {
            Some(match i {
                $(Instruction::$N(o) => ($b, stringify!($N), unpack_op!($s, *o), access_op!($s, o)),)*
                _ => return None,
            })
        }
        /// shorthand constructor (panics when an argument is out of range)
        fn ctor_short(byte: u8, f: &Fields) -> Option<Instruction> {
            match byte {
                $($b => Some(short_ctor!($s, $n, f)),)*
                _ => None,
            }
        }
        /// typed constructor through masking `RegId::new`/`ImmNN::new`: (instruction, u32, [u8;4], [u8;3])
        fn ctor_typed(byte: u8, f: &Fields) -> Option<(Instruction, u32, [u8; 4], [u8; 3])> {
            match byte {
                $($b => {
                    let o = typed_ctor!($s, $N, f);
                    Some((Instruction::from(o), u32::from(o), <[u8; 4]>::from(o), <[u8; 3]>::from(o)))
                })*
                _ => None,
            }
        }
        fn bound(byte: u8) -> Option<(&'static str, Shape)> {
            match byte {
                $($b => Some((stringify!($N), Shape::$s)),)*
                _ => None,
            }
        }
    };
}
crate::for_each_op!(lib_bindings);

// ------------------------------------------------------------------ the table in force

pub struct InForce {
    pub table: Table,
    /// "source" or "snapshot (<why>)"
    pub origin: String,
    pub diffs: Vec<String>,
}

fn fuel_asm_lib_rs() -> Result<String, String> {
    let manifest = concat!(env!("CARGO_MANIFEST_DIR"), "/Cargo.toml");
    let toml = std::fs::read_to_string(manifest).map_err(|e| format!("cannot read {manifest}: {e}"))?;
    for line in toml.lines() {
        let l = line.trim();
        if l.starts_with("fuel-asm") {
            if let Some(p) = l.split("path").nth(1) {
                let mut it = p.split('"');
                it.next();
                if let Some(path) = it.next() {
                    let f = format!("{path}/src/lib.rs");
                    return std::fs::read_to_string(&f).map_err(|e| format!("cannot read {f}: {e}"));
                }
            }
        }
    }
    Err("no fuel-asm path dependency in Cargo.toml".into())
}

pub fn in_force() -> &'static InForce {
    static T: OnceLock<InForce> = OnceLock::new();
    T.get_or_init(|| {
        let snap = Table::from_ops(&isa::snapshot()).expect("snapshot has no duplicate bytes");
        let parsed = fuel_asm_lib_rs().and_then(|s| isa::parse_decl(&s)).and_then(|ops| Table::from_ops(&ops));
        match parsed {
            Ok(t) => {
                let diffs = t.diff(&snap);
                for d in &diffs {
                    eprintln!("[C08] note: ISA declaration vs snapshot: {d}");
                }
                InForce { table: t, origin: "source".into(), diffs }
            }
            Err(e) => {
                eprintln!("[C08] note: ISA declaration not usable ({e}); the embedded snapshot is in force");
                InForce { table: snap, origin: format!("snapshot ({e})"), diffs: vec![] }
            }
        }
    })
}

// ------------------------------------------------------------------ oracles

fn first_diff(a: &Fields, b: &Fields) -> usize {
    (0..4).find(|&i| a.v[i] != b.v[i]).unwrap_or(a.n.max(b.n) as usize)
}

/// everything the statement says about one raw word
fn check_word(w: &u32, obs: &mut Obs) -> Check {
    let w = *w;
    let tbl = &in_force().table;
    let byte = (w >> 24) as u8;
    let bytes = w.to_be_bytes();
    let args = [bytes[1], bytes[2], bytes[3]];
    let info = tbl.get(byte);
    let got = Instruction::try_from(w);
    let got_b = Instruction::try_from(bytes);
    ensure_eq!(got, got_b, "decode:u32-vs-bytes-differ", "try_from(u32) and try_from([u8;4]) differ for {w:#010x}");
    let Some(info) = info else {
        obs.class("invalid:undefined-opcode");
        ensure!(got.is_err(), "decode:accepted-undefined-opcode", "word {w:#010x}: opcode byte {byte:#04x} is not defined but decoding gave {:?}", got);
        ensure!(Opcode::try_from(byte).is_err(), "opcode:try_from-accepted-undefined", "Opcode::try_from({byte:#04x}) accepted");
        return Ok(());
    };
    let shape = info.shape;
    let reserved = w & shape.reserved_mask();
    let want = shape.extract(w);
    let parsed = raw_parse(byte, args);
    if parsed.is_none() {
        obs.note("per-op parser unchecked (opcode not in snapshot)", 1);
    }
    if reserved != 0 {
        obs.class("invalid:reserved-bits");
        obs.nontrivial(&(byte, reserved.trailing_zeros() / 6, false));
        ensure!(
            got.is_err(),
            format!("decode:accepted-reserved-bits:{}", shape.label()),
            "word {w:#010x} ({} {}): reserved bits {reserved:#08x} set but decoding gave {:?}", info.name, shape.label(), got
        );
        if let Some(p) = parsed {
            ensure!(
                p.is_err(),
                format!("raw-parser:accepted-reserved-bits:{}", shape.label()),
                "word {w:#010x} ({}): general decoder rejects, from_raw_args accepts", info.name
            );
        }
        return Ok(());
    }
    let nz = want.as_slice().iter().enumerate().fold(0u8, |m, (i, v)| m | (((*v != 0) as u8) << i));
    if nz.count_ones() >= 2 {
        obs.class("valid:>=2-nonzero-fields");
        obs.nontrivial(&(byte, nz, true));
    } else {
        obs.class("valid:<2-nonzero-fields");
    }
    let Ok(instr) = got else {
        fail!(format!("decode:rejected-valid:{}", shape.label()), "word {w:#010x} ({} {}) has a defined opcode and zero reserved bits but was rejected", info.name, shape.label());
    };
    // re-encoding
    ensure_eq!(u32::from(instr), w, "reencode:word-differs", "{} decoded from {w:#010x} re-encodes differently", info.name);
    ensure_eq!(instr.to_bytes(), bytes, "reencode:bytes-differ", "{} to_bytes", info.name);
    ensure_eq!(<[u8; 4]>::from(instr), bytes, "reencode:bytes-differ", "{} into [u8;4]", info.name);
    // opcode
    let opc = instr.opcode();
    ensure_eq!(opc as u8, byte, "opcode:byte-differs", "opcode() of {w:#010x}");
    ensure_eq!(Opcode::try_from(byte), Ok(opc), "opcode:try_from-differs", "Opcode::try_from({byte:#04x})");
    // arguments
    if let Some((b, name, unpacked, accessed)) = instr_view(&instr) {
        ensure_eq!(b, byte, "decode:wrong-variant", "word {w:#010x} decoded to variant {name}");
        ensure_eq!(name, info.name.as_str(), "decode:wrong-variant", "word {w:#010x} variant name");
        if unpacked != want {
            fail!(
                format!("unpack:{}:field{}", shape.label(), first_diff(&unpacked, &want)),
                "word {w:#010x} ({}): unpack() = {:?}, fields by position = {:?}", info.name, unpacked.as_slice(), want.as_slice()
            );
        }
        if accessed != want {
            fail!(
                format!("accessors:{}:field{}", shape.label(), first_diff(&accessed, &want)),
                "word {w:#010x} ({}): accessors = {:?}, fields by position = {:?}", info.name, accessed.as_slice(), want.as_slice()
            );
        }
    } else {
        obs.note("arguments unchecked (variant not in snapshot)", 1);
    }
    // register ids through the generic accessor
    let mut regs = [None; 4];
    for i in 0..shape.regs() {
        regs[i] = Some(want.v[i] as u8);
    }
    let lib_regs = instr.reg_ids().map(|r| r.map(|r| r.to_u8()));
    ensure_eq!(lib_regs, regs, format!("reg-ids:differ:{}", shape.label()), "reg_ids() of {w:#010x} ({})", info.name);
    // the interpreter's parser
    if let Some(p) = parsed {
        let Ok(f) = p else {
            fail!(format!("raw-parser:rejected-valid:{}", shape.label()), "word {w:#010x} ({}): general decoder accepts, from_raw_args rejects", info.name);
        };
        if f != want {
            fail!(
                format!("raw-parser:{}:field{}", shape.label(), first_diff(&f, &want)),
                "word {w:#010x} ({}): from_raw_args().unpack() = {:?}, fields by position = {:?}", info.name, f.as_slice(), want.as_slice()
            );
        }
    }
    Ok(())
}

fn check_byte(b: &u8, obs: &mut Obs) -> Check {
    let b = *b;
    let inf = in_force();
    if b == 0 {
        obs.note(&format!("table in force: {}", inf.origin), 1);
        obs.note("declaration-vs-snapshot differences", inf.diffs.len() as u64);
    }
    let lib = Opcode::try_from(b);
    match (inf.table.get(b), lib) {
        (None, Err(_)) => {
            obs.class("undefined");
            Ok(())
        }
        (Some(i), Err(_)) => fail!("isa:declared-opcode-rejected", "byte {b:#04x} ({}) is declared but Opcode::try_from rejects it", i.name),
        (None, Ok(o)) => fail!("isa:undeclared-opcode-accepted", "byte {b:#04x} is not declared but Opcode::try_from gives {o:?}"),
        (Some(i), Ok(o)) => {
            obs.class("defined");
            obs.class(&format!("shape {}", i.shape.label()));
            obs.nontrivial(&b);
            ensure_eq!(o as u8, b, "isa:opcode-discriminant", "Opcode {o:?} as u8");
            ensure_eq!(u8::from(o), b, "isa:opcode-discriminant", "u8::from({o:?})");
            ensure_eq!(format!("{o:?}"), i.name, "isa:opcode-name", "name of opcode byte {b:#04x}");
            match bound(b) {
                Some((n, s)) => {
                    ensure_eq!(n, i.name.as_str(), "harness-isa-snapshot-outdated", "snapshot mnemonic for {b:#04x}");
                    ensure_eq!(s, i.shape, "harness-isa-snapshot-outdated", "snapshot shape for {b:#04x} {n}");
                }
                None => obs.note("opcodes adopted from the declaration (not in snapshot)", 1),
            }
            Ok(())
        }
    }
}

// ------------------------------------------------------------------ constructors

#[derive(Debug, Clone, Serialize, Deserialize)]
pub struct CtorCase {
    pub byte: u8,
    pub fields: Fields,
}

fn check_ctor(c: &CtorCase, obs: &mut Obs) -> Check {
    let tbl = &in_force().table;
    let Some(info) = tbl.get(c.byte) else { fail!("harness-ctor-case", "constructor case for undefined byte {:#04x}", c.byte) };
    let shape = info.shape;
    let f = &c.fields;
    ensure!(f.n as usize == shape.arity(), "harness-ctor-case", "arity");
    if bound(c.byte).is_none() {
        obs.note("constructors unchecked (opcode not in snapshot)", 1);
        return Ok(());
    }
    let in_range = shape.in_range(f);
    // typed constructors mask their arguments
    let mut masked = *f;
    for i in 0..shape.arity() {
        masked.v[i] &= shape.field_max(i);
    }
    let want_word = shape.pack(c.byte, &masked);
    let (ti, tw, tb4, tb3) = ctor_typed(c.byte, f).expect("bound");
    let key = |k: &str| format!("ctor-{}:{}", k, shape.label());
    ensure_eq!(tw, want_word, key("typed:word"), "{}::new({:?}) as u32", info.name, f.as_slice());
    ensure_eq!(tb4, want_word.to_be_bytes(), key("typed:bytes"), "{}::new({:?}) as [u8;4]", info.name, f.as_slice());
    ensure_eq!(tb3[..], want_word.to_be_bytes()[1..], key("typed:bytes"), "{}::new({:?}) as [u8;3]", info.name, f.as_slice());
    ensure_eq!(u32::from(ti), want_word, key("typed:word"), "Instruction::from({}::new({:?}))", info.name, f.as_slice());
    ensure_eq!(Instruction::try_from(want_word), Ok(ti), key("typed:decode"), "decoding the word built from {} {:?}", info.name, masked.as_slice());
    let (b, name, unpacked, _) = instr_view(&ti).expect("bound");
    ensure_eq!((b, name), (c.byte, info.name.as_str()), key("typed:opcode"), "variant of {}::new", info.name);
    ensure_eq!(ti.opcode() as u8, c.byte, key("typed:opcode"), "opcode() of {}::new", info.name);
    if unpacked != masked {
        fail!(format!("ctor-typed:unpack:{}:field{}", shape.label(), first_diff(&unpacked, &masked)), "{}::new({:?}).unpack() = {:?}", info.name, masked.as_slice(), unpacked.as_slice());
    }
    if in_range {
        obs.class("in-range");
        if f.as_slice().iter().filter(|v| **v != 0).count() >= 2 {
            obs.nontrivial(&(c.byte, f.as_slice().iter().map(|v| 32 - v.leading_zeros()).collect::<Vec<_>>()));
        }
        let si = match catch_panic(|| ctor_short(c.byte, f)) {
            Ok(i) => i.expect("bound"),
            Err((loc, msg)) => fail!(key("short:panicked-in-range"), "op::{}({:?}) panicked at {loc}: {msg}", info.ctor, f.as_slice()),
        };
        ensure_eq!(si, ti, key("short:differs-from-typed"), "op::{}({:?})", info.ctor, f.as_slice());
        ensure_eq!(u32::from(si), want_word, key("short:word"), "op::{}({:?}) as u32", info.ctor, f.as_slice());
        let bytes: Vec<u8> = [si].into_iter().collect();
        ensure_eq!(bytes[..], want_word.to_be_bytes()[..], key("short:bytes"), "collecting op::{} into bytes", info.ctor);
        let back: Vec<_> = fuel_asm::from_bytes(bytes).collect();
        ensure_eq!(back, vec![Ok(si)], key("short:decode"), "from_bytes of op::{}({:?})", info.ctor, f.as_slice());
    } else {
        obs.class("out-of-range");
        obs.nontrivial(&(c.byte, 0xFFu8, first_oor(shape, f)));
        // the literal-taking constructors must refuse (they panic by contract)
        match catch_panic(|| ctor_short(c.byte, f)) {
            Err(_) => {}
            Ok(i) => fail!(key("short:accepted-out-of-range"), "op::{}({:?}) accepted out-of-range arguments and gave {:?}", info.ctor, f.as_slice(), i),
        }
    }
    Ok(())
}

fn first_oor(shape: Shape, f: &Fields) -> usize {
    (0..shape.arity()).find(|&i| f.v[i] > shape.field_max(i)).unwrap_or(9)
}

/// value sets per field for the constructor sweep
fn sweep_values(bits: u32, thorough: bool) -> Vec<u32> {
    let max = (1u32 << bits) - 1;
    if bits <= 12 || thorough {
        return (0..=max).collect();
    }
    // quick, wide immediates: every value with at most two non-zero six-bit groups + lattice
    let groups = bits / 6;
    let mut v: Vec<u32> = field_lattice(bits);
    for g1 in 0..groups {
        for a in 0..64u32 {
            v.push(a << (6 * g1));
            for g2 in (g1 + 1)..groups {
                for b in 1..64u32 {
                    v.push((a << (6 * g1)) | (b << (6 * g2)));
                }
            }
        }
    }
    v.sort();
    v.dedup();
    v
}

fn enumerate_ctors(ctx: &Ctx, shard: usize, nshards: usize, sink: &mut dyn FnMut(CtorCase) -> bool) {
    let thorough = ctx.tier == Tier::Thorough;
    let ops: Vec<&OpInfo> = in_force().table.defined().collect();
    for (k, info) in ops.iter().enumerate() {
        if k % nshards != shard {
            continue;
        }
        let s = info.shape;
        let n = s.arity();
        if n == 0 {
            if !sink(CtorCase { byte: info.byte, fields: Fields::NONE }) {
                return;
            }
            continue;
        }
        // (1) per argument class: all values of field i, the other fields at 3 settings
        for i in 0..n {
            let (_, bits) = s.field(i);
            for others in 0..3u32 {
                for v in sweep_values(bits, thorough) {
                    let mut f = Fields::NONE;
                    f.n = n as u8;
                    for j in 0..n {
                        let m = s.field_max(j);
                        f.v[j] = match others {
                            0 => 0,
                            1 => m,
                            _ => 0x0095_5AA5u32.rotate_left(j as u32 * 7) & m,
                        };
                    }
                    f.v[i] = v;
                    if !sink(CtorCase { byte: info.byte, fields: f }) {
                        return;
                    }
                }
            }
        }
        // (2) cross lattice of all fields
        let lats: Vec<Vec<u32>> = (0..n).map(|i| field_lattice(s.field(i).1)).collect();
        let mut idx = vec![0usize; n];
        'cross: loop {
            let mut f = Fields::NONE;
            f.n = n as u8;
            for j in 0..n {
                f.v[j] = lats[j][idx[j]];
            }
            if !sink(CtorCase { byte: info.byte, fields: f }) {
                return;
            }
            let mut j = 0;
            loop {
                idx[j] += 1;
                if idx[j] < lats[j].len() {
                    break;
                }
                idx[j] = 0;
                j += 1;
                if j == n {
                    break 'cross;
                }
            }
        }
        // (3) out-of-range values (representable in the constructor's parameter type)
        for i in 0..n {
            let (_, bits) = s.field(i);
            let tmax: u32 = match bits {
                6 => u8::MAX as u32,
                12 => u16::MAX as u32,
                _ => u32::MAX,
            };
            let max = s.field_max(i);
            let mut oor = vec![max + 1, max + 2, tmax, tmax - 1, (max + 1) | 1, (max + 1) << 1 | max];
            let mut k = bits;
            while (1u64 << k) <= tmax as u64 {
                oor.push(1u32 << k);
                oor.push((1u32 << k) | max);
                k += 1;
            }
            oor.retain(|v| *v > max && *v <= tmax);
            oor.sort();
            oor.dedup();
            for v in oor {
                for others in 0..2u32 {
                    let mut f = Fields::NONE;
                    f.n = n as u8;
                    for j in 0..n {
                        f.v[j] = if others == 0 { 0 } else { s.field_max(j) };
                    }
                    f.v[i] = v;
                    if !sink(CtorCase { byte: info.byte, fields: f }) {
                        return;
                    }
                }
            }
        }
    }
}

// ------------------------------------------------------------------ new_checked

/// kind: 0 RegId(u8) 1 Imm06(u8) 2 Imm12(u16) 3 Imm18(u32) 4 Imm24(u32)
#[derive(Debug, Clone, Serialize, Deserialize)]
pub struct CheckedCase {
    pub kind: u8,
    pub value: u32,
}

fn check_checked(c: &CheckedCase, obs: &mut Obs) -> Check {
    let v = c.value;
    let (name, bits, got, masked): (&str, u32, Option<u32>, u32) = match c.kind {
        0 => ("RegId", 6, RegId::new_checked(v as u8).map(|r| r.to_u8() as u32), RegId::new(v as u8).to_u8() as u32),
        1 => ("Imm06", 6, Imm06::new_checked(v as u8).map(|r| r.to_u8() as u32), Imm06::new(v as u8).to_u8() as u32),
        2 => ("Imm12", 12, Imm12::new_checked(v as u16).map(|r| r.to_u16() as u32), Imm12::new(v as u16).to_u16() as u32),
        3 => ("Imm18", 18, Imm18::new_checked(v).map(|r| r.to_u32()), Imm18::new(v).to_u32()),
        4 => ("Imm24", 24, Imm24::new_checked(v).map(|r| r.to_u32()), Imm24::new(v).to_u32()),
        _ => fail!("harness-checked-case", "kind"),
    };
    let max = (1u32 << bits) - 1;
    ensure_eq!(masked, v & max, format!("new:mask:{name}"), "{name}::new({v})");
    if v <= max {
        obs.class("in-range");
        ensure_eq!(got, Some(v), format!("new_checked:rejected-in-range:{name}"), "{name}::new_checked({v})");
    } else {
        obs.class("out-of-range");
        obs.nontrivial(&(c.kind, 32 - v.leading_zeros(), v & max == 0));
        ensure_eq!(got, None, format!("new_checked:accepted-out-of-range:{name}"), "{name}::new_checked({v})");
    }
    // From / Into conversions
    match c.kind {
        0 => {
            ensure_eq!(u8::from(RegId::from(v as u8)) as u32, v & max, "from:RegId", "RegId::from({v})");
            ensure_eq!(usize::from(RegId::new(v as u8)), (v & max) as usize, "from:RegId", "usize::from(RegId)");
        }
        1 => ensure_eq!(u64::from(Imm06::from(v as u8)), (v & max) as u64, "from:Imm06", "Imm06::from({v})"),
        2 => ensure_eq!(u64::from(Imm12::from(v as u16)), (v & max) as u64, "from:Imm12", "Imm12::from({v})"),
        3 => ensure_eq!(u64::from(Imm18::from(v)), (v & max) as u64, "from:Imm18", "Imm18::from({v})"),
        _ => ensure_eq!(u64::from(Imm24::from(v)), (v & max) as u64, "from:Imm24", "Imm24::from({v})"),
    }
    Ok(())
}

fn enumerate_checked(ctx: &Ctx, shard: usize, nshards: usize, sink: &mut dyn FnMut(CheckedCase) -> bool) {
    let thorough = ctx.tier == Tier::Thorough;
    let mut n = 0usize;
    let mut emit = |kind: u8, value: u32| -> bool {
        n += 1;
        if n % nshards != shard {
            return true;
        }
        sink(CheckedCase { kind, value })
    };
    for v in 0..=255u32 {
        if !emit(0, v) || !emit(1, v) {
            return;
        }
    }
    for v in 0..=65535u32 {
        if !emit(2, v) {
            return;
        }
    }
    for (kind, bits) in [(3u8, 18u32), (4, 24)] {
        // everything up to one bit above the width (quick: up to 2^20 for Imm24)
        let top = if thorough || bits == 18 { 1u32 << (bits + 1) } else { 1u32 << 20 };
        for v in 0..top {
            if !emit(kind, v) {
                return;
            }
        }
        // high bits × low lattice
        let low = field_lattice(bits);
        for k in bits..32 {
            for hi in [1u32 << k, u32::MAX << k] {
                for l in &low {
                    if !emit(kind, hi | l) {
                        return;
                    }
                }
            }
        }
    }
}

// ------------------------------------------------------------------ word enumerations

fn payloads_le2_groups() -> Vec<u32> {
    let mut v = vec![0u32];
    for g1 in 0..4 {
        for a in 1..64u32 {
            v.push(a << (6 * g1));
            for g2 in (g1 + 1)..4 {
                for b in 1..64u32 {
                    v.push((a << (6 * g1)) | (b << (6 * g2)));
                }
            }
        }
    }
    v.sort();
    v.dedup();
    v
}

fn enumerate_words(ctx: &Ctx, shard: usize, nshards: usize, sink: &mut dyn FnMut(u32) -> bool) {
    match ctx.tier {
        Tier::Thorough => {
            for byte in 0..256u32 {
                if byte as usize % nshards != shard {
                    continue;
                }
                for p in 0..(1u32 << 24) {
                    if !sink((byte << 24) | p) {
                        return;
                    }
                }
            }
        }
        Tier::Quick => {
            let ps = payloads_le2_groups();
            for byte in 0..256u32 {
                if byte as usize % nshards != shard {
                    continue;
                }
                for p in &ps {
                    if !sink((byte << 24) | p) {
                        return;
                    }
                }
            }
        }
    }
}

fn lattice_payloads() -> Vec<u32> {
    let mut out = vec![];
    for s in Shape::ALL {
        let n = s.arity();
        if n == 0 {
            out.push(0);
            continue;
        }
        let lats: Vec<Vec<u32>> = (0..n).map(|i| field_lattice(s.field(i).1)).collect();
        let mut idx = vec![0usize; n];
        'cross: loop {
            let mut f = Fields::NONE;
            f.n = n as u8;
            for j in 0..n {
                f.v[j] = lats[j][idx[j]];
            }
            out.push(s.pack(0, &f));
            let mut j = 0;
            loop {
                idx[j] += 1;
                if idx[j] < lats[j].len() {
                    break;
                }
                idx[j] = 0;
                j += 1;
                if j == n {
                    break 'cross;
                }
            }
        }
    }
    out.sort();
    out.dedup();
    out
}

fn enumerate_lattice(_ctx: &Ctx, shard: usize, nshards: usize, sink: &mut dyn FnMut(u32) -> bool) {
    let ps = lattice_payloads();
    for byte in 0..256u32 {
        if byte as usize % nshards != shard {
            continue;
        }
        for p in &ps {
            if !sink((byte << 24) | p) {
                return;
            }
        }
    }
}

fn random_word() -> impl Strategy<Value = u32> {
    let defined: Vec<(u8, u32)> = in_force().table.defined().map(|o| (o.byte, o.shape.reserved_mask())).collect();
    let d2 = defined.clone();
    prop_oneof![
        2 => any::<u32>(),
        // defined opcode, arbitrary payload (mostly invalid for shapes with reserved bits)
        2 => (prop::sample::select(defined.clone()), any::<u32>()).prop_map(|((b, _), p)| ((b as u32) << 24) | (p & 0x00FF_FFFF)),
        // defined opcode, reserved bits cleared
        3 => (prop::sample::select(defined), any::<u32>()).prop_map(|((b, r), p)| ((b as u32) << 24) | (p & 0x00FF_FFFF & !r)),
        // defined opcode, exactly one reserved bit set (if the shape has any)
        1 => (prop::sample::select(d2), any::<u32>(), 0u32..24).prop_map(|((b, r), p, k)| {
            let mut w = ((b as u32) << 24) | (p & 0x00FF_FFFF & !r);
            if r != 0 {
                // k-th reserved bit, cyclically
                let bits: Vec<u32> = (0..24).filter(|i| r >> i & 1 == 1).collect();
                w |= 1 << bits[k as usize % bits.len()];
            }
            w
        }),
    ]
}

pub fn property() -> Property {
    Property {
        id: "C08",
        rule: "raw 32-bit words checked against model::isa (table opcode byte -> argument shape parsed from the impl_instructions! declaration, cross-checked with the embedded snapshot and with Opcode::try_from on all 256 bytes; field positions/reserved masks are harness arithmetic): decode succeeds iff opcode defined and reserved bits zero; re-encoding, opcode(), unpack(), accessors, reg_ids() and the interpreter's per-op from_raw_args agree with the positional fields. Constructors (typed masking `new`, literal-taking `op::x`) -> word -> decode for in-range tuples, panic for out-of-range; RegId/ImmNN::new_checked. Non-trivial word = valid with >= 2 non-zero fields, or invalid with a defined opcode; distinct by (opcode byte, set of non-zero fields / lowest reserved group)".into(),
        assumptions: vec![
            "model::isa snapshot and field arithmetic transcribe the FuelVM instruction-set specification (opcode bytes, argument shapes, bit layout)".into(),
            "the interpreter dispatches through op::X::from_raw_args (executors/instruction.rs, execute_op!), which is what the per-op binding calls".into(),
        ],
        parts: vec![
            enum_part("isa-table", "all 256 opcode bytes: table in force vs Opcode::try_from / discriminant / Debug name / snapshot bindings", true,
                |_c: &Ctx, shard, n, sink: &mut dyn FnMut(u8) -> bool| {
                    for b in 0..=255u8 {
                        if b as usize % n == shard && !sink(b) {
                            return;
                        }
                    }
                },
                check_byte),
            enum_part("words-exhaustive", "thorough: all 2^32 words; quick: every opcode byte x every 24-bit payload with at most two non-zero six-bit groups", true,
                enumerate_words, check_word),
            enum_part("words-lattice", "every opcode byte x union over the 9 shapes of the cross product of per-field boundary values (0,1,2,mid-1,mid,mid+1,max-1,max, every single bit, 0xAA../0x55..)", false,
                enumerate_lattice, check_word),
            gen_part("words-random", "uniform words / defined opcode with arbitrary, valid, or one-reserved-bit payload", (4_000_000, 96_000_000),
                |_c: &Ctx| random_word(), check_word),
            enum_part("constructors", "every opcode: each argument swept over all its values (quick: 18/24-bit immediates over values with <= 2 non-zero six-bit groups + lattice) with the others at 0 / max / pattern; cross lattice of all arguments; out-of-range literals", false,
                enumerate_ctors, check_ctor),
            enum_part("new-checked", "RegId/Imm06 over all u8, Imm12 over all u16, Imm18 below 2^19, Imm24 below 2^25 (quick 2^20), plus high-bit x low-lattice values", false,
                enumerate_checked, check_checked),
        ],
        floors: vec![
            ("words-random", "valid:>=2-nonzero-fields", 0.20),
            ("words-random", "invalid:reserved-bits", 0.05),
            ("words-random", "invalid:undefined-opcode", 0.05),
        ],
    }
}
