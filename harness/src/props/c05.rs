//! C05 — In-VM transaction introspection returns the executed transaction's data.
//!
//! Domain: valid-TX of the five kinds that execute or carry predicates, placed in a VM through
//! `init_script` (Script) or `init_predicate` (all five kinds; verification and estimation
//! contexts), × every `GTFArgs` selector (immediates 0..4096 through `GTFArgs::try_from`, so a
//! selector added later is picked up and reported as `harness-unknown-selector` until it gets a
//! row) × undefined immediates × index `b` × destination register, executed one instruction at a
//! time with `Interpreter::instruction`.
//!
//! Oracle: the table `expect()` below, written from DESIGN.md Appendix B and the `GTFArgs` doc
//! comments (fuel-asm/src/args.rs). The expected transaction is the harness's own
//! malleable-zeroed copy of the *spec* (C03's table) with the witnesses kept — `init_inner`
//! zeroes the malleable fields for scripts and predicates alike before the bytes are pushed.
//! Expected bytes of whole inputs / outputs / witnesses / slots come from the canonical encoder
//! (C01, C04 cover it); sub-fields are the spec's own values. Nothing here calls any `*_offset`
//! function of fuel-tx.
#![allow(deprecated)]

use crate::engine::*;
use crate::gens::tx::*;
use crate::gens::validtx::{params_any, tight, valid_tx_kind, Auth, Realized, VIn, ValidCase, DEFAULT_PREDICATE};
use crate::gens::{pick, word};
use crate::props::c03::zero_malleable;
use crate::{ensure, ensure_eq, fail};
use fuel_asm::{op, GMArgs, GTFArgs, PanicReason, RegId};
use fuel_tx::{ConsensusParameters, Transaction};
use fuel_types::canonical::Serialize as _;
use fuel_vm::checked_transaction::IntoChecked;
use fuel_vm::context::Context;
use fuel_vm::error::InterpreterError;
use fuel_vm::interpreter::{CheckedMetadata, ExecutableTransaction, Interpreter, InterpreterParams, MemoryInstance};
use fuel_vm::predicate::RuntimePredicate;
use fuel_vm::storage::MemoryStorage;
use proptest::prelude::*;
use serde::{Deserialize, Serialize};
use std::collections::BTreeSet;

type Vm<Tx> = Interpreter<MemoryInstance, MemoryStorage, Tx>;

const R_IDX: u8 = 0x20;
const GAS: u64 = 1 << 40;
use PanicReason as PR;

// =================================================================== the oracle table

/// which vector the index argument addresses
#[derive(Clone, Copy, PartialEq, Eq, Debug)]
enum Dom {
    None,
    In,
    Out,
    Wit,
    Slot,
    Proof,
}

#[derive(Clone, Debug, PartialEq, Eq)]
enum Got {
    Val(u64),
    /// pointer into the transaction at which these bytes must be found
    Ptr(Vec<u8>),
}

#[derive(Clone, Debug)]
enum Exp {
    /// the field exists: the instruction must succeed with this answer
    Is(Got),
    /// the field does not exist: the instruction must panic with one of these reasons
    Absent(&'static [PanicReason]),
    /// neither the statement nor the in-repo documentation pins the cell: the in-memory answer
    /// or one of the panics is accepted (counted under the label)
    DontCare(&'static str, Got, &'static [PanicReason]),
}

const A_IN: &[PanicReason] = &[PR::InputNotFound];
const A_OUT: &[PanicReason] = &[PR::OutputNotFound];
const A_WIT: &[PanicReason] = &[PR::WitnessNotFound];
const A_POL: &[PanicReason] = &[PR::PolicyIsNotSet];
const A_SLOT: &[PanicReason] = &[PR::StorageSlotsNotFound];
const A_PROOF: &[PanicReason] = &[PR::ProofInUploadNotFound];
const A_KIND: &[PanicReason] = &[PR::InvalidMetadataIdentifier];

/// the same admissible set plus `InvalidMetadataIdentifier`
fn with_invalid_identifier(a: &'static [PanicReason]) -> &'static [PanicReason] {
    match a.first() {
        Some(PR::InputNotFound) if a.len() == 1 => &[PR::InputNotFound, PR::InvalidMetadataIdentifier],
        Some(PR::OutputNotFound) if a.len() == 1 => &[PR::OutputNotFound, PR::InvalidMetadataIdentifier],
        Some(PR::WitnessNotFound) if a.len() == 1 => &[PR::WitnessNotFound, PR::InvalidMetadataIdentifier],
        Some(PR::StorageSlotsNotFound) if a.len() == 1 => &[PR::StorageSlotsNotFound, PR::InvalidMetadataIdentifier],
        Some(PR::ProofInUploadNotFound) if a.len() == 1 => &[PR::ProofInUploadNotFound, PR::InvalidMetadataIdentifier],
        _ => a,
    }
}

fn with_invalid_identifier_pol(a: &'static [PanicReason]) -> &'static [PanicReason] {
    match a.first() {
        Some(PR::PolicyIsNotSet) if a.len() == 1 => &[PR::PolicyIsNotSet, PR::InvalidMetadataIdentifier],
        _ => a,
    }
}

fn val(v: impl TryInto<u64>) -> Exp {
    Exp::Is(Got::Val(v.try_into().ok().expect("fits a word")))
}
fn ptr(b: impl Into<Vec<u8>>) -> Exp {
    Exp::Is(Got::Ptr(b.into()))
}
fn b32p(b: &B32) -> Exp {
    ptr(b.0.to_vec())
}

fn at<T>(v: &[T], b: u64) -> Option<&T> {
    usize::try_from(b).ok().and_then(|i| v.get(i))
}

struct CoinView<'a> {
    utxo: &'a UtxoSpec,
    owner: &'a B32,
    amount: u64,
    asset: &'a B32,
    txp: &'a TxpSpec,
    wit: Option<u16>,
    gas: Option<u64>,
    predicate: Option<&'a HexBytes>,
    pdata: Option<&'a HexBytes>,
}

fn coin(i: &InSpec) -> Option<CoinView<'_>> {
    match i {
        InSpec::CoinSigned { utxo, owner, amount, asset, txp, wit } => Some(CoinView { utxo, owner, amount: *amount, asset, txp, wit: Some(*wit), gas: None, predicate: None, pdata: None }),
        InSpec::CoinPredicate { utxo, owner, amount, asset, txp, gas, predicate, pdata } => {
            Some(CoinView { utxo, owner, amount: *amount, asset, txp, wit: None, gas: Some(*gas), predicate: Some(predicate), pdata: Some(pdata) })
        }
        _ => None,
    }
}

struct MsgView<'a> {
    sender: &'a B32,
    recipient: &'a B32,
    amount: u64,
    nonce: &'a B32,
    wit: Option<u16>,
    gas: Option<u64>,
    data: Option<&'a HexBytes>,
    predicate: Option<&'a HexBytes>,
    pdata: Option<&'a HexBytes>,
}

fn msg(i: &InSpec) -> Option<MsgView<'_>> {
    match i {
        InSpec::MsgCoinSigned { sender, recipient, amount, nonce, wit } => {
            Some(MsgView { sender, recipient, amount: *amount, nonce, wit: Some(*wit), gas: None, data: None, predicate: None, pdata: None })
        }
        InSpec::MsgCoinPredicate { sender, recipient, amount, nonce, gas, predicate, pdata } => {
            Some(MsgView { sender, recipient, amount: *amount, nonce, wit: None, gas: Some(*gas), data: None, predicate: Some(predicate), pdata: Some(pdata) })
        }
        InSpec::MsgDataSigned { sender, recipient, amount, nonce, wit, data } => {
            Some(MsgView { sender, recipient, amount: *amount, nonce, wit: Some(*wit), gas: None, data: Some(data), predicate: None, pdata: None })
        }
        InSpec::MsgDataPredicate { sender, recipient, amount, nonce, gas, data, predicate, pdata } => {
            Some(MsgView { sender, recipient, amount: *amount, nonce, wit: None, gas: Some(*gas), data: Some(data), predicate: Some(predicate), pdata: Some(pdata) })
        }
        _ => None,
    }
}

/// wire value of a field that exists in the format but not in this variant (always zero / empty)
fn variant_default(label: &'static str, g: Got) -> Exp {
    Exp::DontCare(label, g, A_IN)
}

fn policy(z: &TxSpec, i: usize) -> Exp {
    if z.pol.mask & (1 << i) != 0 {
        val(z.pol.vals[i])
    } else {
        Exp::Absent(A_POL)
    }
}

/// a selector carrying the name of one kind used on a transaction of `kind`
fn legacy(z: &TxSpec, own_kind: u8, e: Exp) -> Exp {
    if z.body.kind() == own_kind {
        return e;
    }
    // deprecated per-kind aliases of the generic `Tx*` selectors: the documentation says
    // "use the generic one instead" and does not say whether they work on other kinds
    match e {
        Exp::Is(g) => Exp::DontCare("legacy-alias-on-other-kind", g, A_KIND),
        Exp::Absent(_) => Exp::Absent(&[PR::InputNotFound, PR::OutputNotFound, PR::WitnessNotFound, PR::InvalidMetadataIdentifier]),
        d => d,
    }
}

fn inputs_count(z: &TxSpec) -> Exp {
    val(z.inputs.len())
}
fn outputs_count(z: &TxSpec) -> Exp {
    val(z.outputs.len())
}
fn witnesses_count(z: &TxSpec) -> Exp {
    val(z.witnesses.len())
}
fn input_at(z: &TxSpec, b: u64) -> Exp {
    at(&z.inputs, b).map_or(Exp::Absent(A_IN), |i| ptr(i.build().to_bytes()))
}
fn output_at(z: &TxSpec, b: u64) -> Exp {
    at(&z.outputs, b).map_or(Exp::Absent(A_OUT), |o| ptr(o.build().to_bytes()))
}
fn witness_at(z: &TxSpec, b: u64) -> Exp {
    at(&z.witnesses, b).map_or(Exp::Absent(A_WIT), |w| ptr(fuel_tx::Witness::from(w.0.clone()).to_bytes()))
}

/// `None` = the harness has no row for this selector
fn expect(sel: GTFArgs, z: &TxSpec, b: u64, tx_len: u64) -> Option<(Dom, Exp)> {
    use GTFArgs as G;
    let kind = z.body.kind();
    let inp = at(&z.inputs, b);
    let out = at(&z.outputs, b);
    let wit = at(&z.witnesses, b);
    let c = inp.and_then(coin);
    let m = inp.and_then(msg);
    let coin_f = |f: &dyn Fn(&CoinView) -> Exp| c.as_ref().map_or(Exp::Absent(A_IN), |c| f(c));
    let msg_f = |f: &dyn Fn(&MsgView) -> Exp| m.as_ref().map_or(Exp::Absent(A_IN), |m| f(m));
    let r = match sel {
        // ---- general
        G::Type => (Dom::None, val(kind)),
        G::ScriptGasLimit => (
            Dom::None,
            match &z.body {
                BodySpec::Script { gas_limit, .. } => val(*gas_limit),
                _ => Exp::DontCare("script-gas-limit-on-other-kind", Got::Val(0), A_KIND),
            },
        ),
        G::ScriptLength => (Dom::None, if let BodySpec::Script { script, .. } = &z.body { val(script.0.len()) } else { Exp::Absent(A_KIND) }),
        G::ScriptDataLength => (Dom::None, if let BodySpec::Script { data, .. } = &z.body { val(data.0.len()) } else { Exp::Absent(A_KIND) }),
        G::Script => (Dom::None, if let BodySpec::Script { script, .. } = &z.body { ptr(script.0.clone()) } else { Exp::Absent(A_KIND) }),
        G::ScriptData => (Dom::None, if let BodySpec::Script { data, .. } = &z.body { ptr(data.0.clone()) } else { Exp::Absent(A_KIND) }),
        G::TxLength => (Dom::None, val(tx_len)),
        G::TxInputsCount => (Dom::None, inputs_count(z)),
        G::TxOutputsCount => (Dom::None, outputs_count(z)),
        G::TxWitnessesCount => (Dom::None, witnesses_count(z)),
        G::TxInputAtIndex => (Dom::In, input_at(z, b)),
        G::TxOutputAtIndex => (Dom::Out, output_at(z, b)),
        G::TxWitnessAtIndex => (Dom::Wit, witness_at(z, b)),
        G::ScriptInputsCount => (Dom::None, legacy(z, 0, inputs_count(z))),
        G::ScriptOutputsCount => (Dom::None, legacy(z, 0, outputs_count(z))),
        G::ScriptWitnessesCount => (Dom::None, legacy(z, 0, witnesses_count(z))),
        G::ScriptInputAtIndex => (Dom::In, legacy(z, 0, input_at(z, b))),
        G::ScriptOutputAtIndex => (Dom::Out, legacy(z, 0, output_at(z, b))),
        G::ScriptWitnessAtIndex => (Dom::Wit, legacy(z, 0, witness_at(z, b))),
        G::CreateInputsCount => (Dom::None, legacy(z, 1, inputs_count(z))),
        G::CreateOutputsCount => (Dom::None, legacy(z, 1, outputs_count(z))),
        G::CreateWitnessesCount => (Dom::None, legacy(z, 1, witnesses_count(z))),
        G::CreateInputAtIndex => (Dom::In, legacy(z, 1, input_at(z, b))),
        G::CreateOutputAtIndex => (Dom::Out, legacy(z, 1, output_at(z, b))),
        G::CreateWitnessAtIndex => (Dom::Wit, legacy(z, 1, witness_at(z, b))),

        // ---- policies (bit order of the specification: tip, witness limit, maturity, max fee, expiration, owner)
        G::PolicyTypes => (Dom::None, val(z.pol.mask)),
        G::PolicyTip => (Dom::None, policy(z, 0)),
        G::PolicyWitnessLimit => (Dom::None, policy(z, 1)),
        G::PolicyMaturity => (Dom::None, policy(z, 2)),
        G::PolicyMaxFee => (Dom::None, policy(z, 3)),
        G::PolicyExpiration => (Dom::None, policy(z, 4)),
        G::PolicyOwner => (Dom::None, policy(z, 5)),

        // ---- create
        G::CreateBytecodeWitnessIndex => (Dom::None, if let BodySpec::Create { wit, .. } = &z.body { val(*wit) } else { Exp::Absent(A_KIND) }),
        G::CreateStorageSlotsCount => (Dom::None, if let BodySpec::Create { slots, .. } = &z.body { val(slots.len()) } else { Exp::Absent(A_KIND) }),
        G::CreateSalt => (Dom::None, if let BodySpec::Create { salt, .. } = &z.body { b32p(salt) } else { Exp::Absent(A_KIND) }),
        G::CreateStorageSlotAtIndex => (
            Dom::Slot,
            if let BodySpec::Create { slots, .. } = &z.body {
                at(slots, b).map_or(Exp::Absent(A_SLOT), |(k, v)| ptr([k.0, v.0].concat()))
            } else {
                Exp::Absent(A_KIND)
            },
        ),

        // ---- inputs
        G::InputType => (Dom::In, inp.map_or(Exp::Absent(A_IN), |i| val(match i.kind() { 0 | 1 => 0u8, 2 => 1, _ => 2 }))),
        G::InputCoinTxId => (Dom::In, coin_f(&|c| b32p(&c.utxo.0))),
        G::InputCoinOutputIndex => (Dom::In, coin_f(&|c| val(c.utxo.1))),
        G::InputCoinOwner => (Dom::In, coin_f(&|c| b32p(c.owner))),
        G::InputCoinAmount => (Dom::In, coin_f(&|c| val(c.amount))),
        G::InputCoinAssetId => (Dom::In, coin_f(&|c| b32p(c.asset))),
        G::InputCoinTxPointer => (Dom::In, coin_f(&|c| ptr(c.txp.build().to_bytes()))),
        G::InputCoinWitnessIndex => (Dom::In, coin_f(&|c| c.wit.map_or(variant_default("witness-index-of-predicate-input", Got::Val(0)), val))),
        G::InputCoinPredicateLength => (Dom::In, coin_f(&|c| val(c.predicate.map_or(0, |p| p.0.len())))),
        G::InputCoinPredicateDataLength => (Dom::In, coin_f(&|c| val(c.pdata.map_or(0, |p| p.0.len())))),
        G::InputCoinPredicateGasUsed => (Dom::In, coin_f(&|c| c.gas.map_or(variant_default("predicate-gas-used-of-signed-input", Got::Val(0)), val))),
        G::InputCoinPredicate => (Dom::In, coin_f(&|c| c.predicate.map_or(variant_default("predicate-of-signed-input", Got::Ptr(vec![])), |p| ptr(p.0.clone())))),
        G::InputCoinPredicateData => (Dom::In, coin_f(&|c| c.pdata.map_or(variant_default("predicate-data-of-signed-input", Got::Ptr(vec![])), |p| ptr(p.0.clone())))),
        G::InputContractTxId => (Dom::In, if let Some(InSpec::Contract { utxo, .. }) = inp { b32p(&utxo.0) } else { Exp::Absent(A_IN) }),
        G::InputContractId => (Dom::In, if let Some(InSpec::Contract { contract, .. }) = inp { b32p(contract) } else { Exp::Absent(A_IN) }),
        G::InputContractOutputIndex => (
            Dom::In,
            if let Some(InSpec::Contract { .. }) = inp {
                let mut pos = z.outputs.iter().enumerate().filter(|(_, o)| matches!(o, OutSpec::Contract { input_index, .. } if *input_index as u64 == b)).map(|(i, _)| i);
                match (pos.next(), pos.next()) {
                    (Some(p), None) => val(p),
                    // cannot happen in a valid transaction
                    _ => return None,
                }
            } else {
                Exp::Absent(A_IN)
            },
        ),
        G::InputMessageSender => (Dom::In, msg_f(&|m| b32p(m.sender))),
        G::InputMessageRecipient => (Dom::In, msg_f(&|m| b32p(m.recipient))),
        G::InputMessageAmount => (Dom::In, msg_f(&|m| val(m.amount))),
        G::InputMessageNonce => (Dom::In, msg_f(&|m| b32p(m.nonce))),
        G::InputMessageWitnessIndex => (Dom::In, msg_f(&|m| m.wit.map_or(variant_default("witness-index-of-predicate-input", Got::Val(0)), val))),
        G::InputMessageDataLength => (Dom::In, msg_f(&|m| val(m.data.map_or(0, |d| d.0.len())))),
        G::InputMessagePredicateLength => (Dom::In, msg_f(&|m| val(m.predicate.map_or(0, |p| p.0.len())))),
        G::InputMessagePredicateDataLength => (Dom::In, msg_f(&|m| val(m.pdata.map_or(0, |p| p.0.len())))),
        G::InputMessagePredicateGasUsed => (Dom::In, msg_f(&|m| m.gas.map_or(variant_default("predicate-gas-used-of-signed-input", Got::Val(0)), val))),
        G::InputMessageData => (Dom::In, msg_f(&|m| m.data.map_or(variant_default("data-of-message-coin-input", Got::Ptr(vec![])), |d| ptr(d.0.clone())))),
        G::InputMessagePredicate => (Dom::In, msg_f(&|m| m.predicate.map_or(variant_default("predicate-of-signed-input", Got::Ptr(vec![])), |p| ptr(p.0.clone())))),
        G::InputMessagePredicateData => (Dom::In, msg_f(&|m| m.pdata.map_or(variant_default("predicate-data-of-signed-input", Got::Ptr(vec![])), |p| ptr(p.0.clone())))),

        // ---- outputs
        G::OutputType => (Dom::Out, out.map_or(Exp::Absent(A_OUT), |o| val(o.kind()))),
        G::OutputCoinTo => (
            Dom::Out,
            match out {
                Some(OutSpec::Coin { to, .. }) | Some(OutSpec::Change { to, .. }) => b32p(to),
                Some(OutSpec::Variable { to, .. }) => Exp::DontCare("coin-selector-on-variable-output", Got::Ptr(to.0.to_vec()), A_OUT),
                _ => Exp::Absent(A_OUT),
            },
        ),
        G::OutputCoinAssetId => (
            Dom::Out,
            match out {
                Some(OutSpec::Coin { asset, .. }) | Some(OutSpec::Change { asset, .. }) => b32p(asset),
                Some(OutSpec::Variable { asset, .. }) => Exp::DontCare("coin-selector-on-variable-output", Got::Ptr(asset.0.to_vec()), A_OUT),
                _ => Exp::Absent(A_OUT),
            },
        ),
        G::OutputCoinAmount => (
            Dom::Out,
            match out {
                Some(OutSpec::Coin { amount, .. }) => val(*amount),
                Some(OutSpec::Change { amount, .. }) | Some(OutSpec::Variable { amount, .. }) => Exp::DontCare("coin-amount-on-change-or-variable-output", Got::Val(*amount), A_OUT),
                _ => Exp::Absent(A_OUT),
            },
        ),
        G::OutputContractInputIndex => (Dom::Out, if let Some(OutSpec::Contract { input_index, .. }) = out { val(*input_index) } else { Exp::Absent(A_OUT) }),
        G::OutputContractCreatedContractId => (Dom::Out, if let Some(OutSpec::ContractCreated { contract, .. }) = out { b32p(contract) } else { Exp::Absent(A_OUT) }),
        G::OutputContractCreatedStateRoot => (Dom::Out, if let Some(OutSpec::ContractCreated { state_root, .. }) = out { b32p(state_root) } else { Exp::Absent(A_OUT) }),

        // ---- witnesses
        G::WitnessDataLength => (Dom::Wit, wit.map_or(Exp::Absent(A_WIT), |w| val(w.0.len()))),
        G::WitnessData => (Dom::Wit, wit.map_or(Exp::Absent(A_WIT), |w| ptr(w.0.clone()))),

        // ---- upload
        G::UploadRoot => (Dom::None, if let BodySpec::Upload { root, .. } = &z.body { b32p(root) } else { Exp::Absent(A_KIND) }),
        G::UploadWitnessIndex => (Dom::None, if let BodySpec::Upload { wit, .. } = &z.body { val(*wit) } else { Exp::Absent(A_KIND) }),
        G::UploadSubsectionIndex => (Dom::None, if let BodySpec::Upload { sub_idx, .. } = &z.body { val(*sub_idx) } else { Exp::Absent(A_KIND) }),
        G::UploadSubsectionsCount => (Dom::None, if let BodySpec::Upload { sub_n, .. } = &z.body { val(*sub_n) } else { Exp::Absent(A_KIND) }),
        G::UploadProofSetCount => (Dom::None, if let BodySpec::Upload { proof, .. } = &z.body { val(proof.len()) } else { Exp::Absent(A_KIND) }),
        G::UploadProofSetAtIndex => (
            Dom::Proof,
            if let BodySpec::Upload { proof, .. } = &z.body { at(proof, b).map_or(Exp::Absent(A_PROOF), b32p) } else { Exp::Absent(A_KIND) },
        ),

        // ---- blob, upgrade
        G::BlobId => (Dom::None, if let BodySpec::Blob { id, .. } = &z.body { b32p(id) } else { Exp::Absent(A_KIND) }),
        G::BlobWitnessIndex => (Dom::None, if let BodySpec::Blob { wit, .. } = &z.body { val(*wit) } else { Exp::Absent(A_KIND) }),
        G::UpgradePurpose => (Dom::None, if let BodySpec::Upgrade(p) = &z.body { ptr(p.build().to_bytes()) } else { Exp::Absent(A_KIND) }),

        #[allow(unreachable_patterns)]
        _ => return None,
    };
    Some(r)
}

fn dom_len(z: &TxSpec, d: Dom) -> u64 {
    (match d {
        Dom::None => 0,
        Dom::In => z.inputs.len(),
        Dom::Out => z.outputs.len(),
        Dom::Wit => z.witnesses.len(),
        Dom::Slot => match &z.body {
            BodySpec::Create { slots, .. } => slots.len(),
            _ => 0,
        },
        Dom::Proof => match &z.body {
            BodySpec::Upload { proof, .. } => proof.len(),
            _ => 0,
        },
    }) as u64
}

fn index_set(len: u64, all: bool) -> Vec<u64> {
    let mut s: BTreeSet<u64> = [0, 1, len.wrapping_sub(1), len, len + 1, 1 << 16, (1 << 16) + 1, u32::MAX as u64 + 1, u64::MAX].into_iter().collect();
    if all {
        s.extend(0..len.min(12));
    }
    s.into_iter().collect()
}

fn index_class(b: u64, len: u64) -> &'static str {
    if b == 0 && len > 0 {
        "first"
    } else if b + 1 == len {
        "last"
    } else if b < len {
        "inner"
    } else if b == len {
        "len"
    } else if b == len + 1 {
        "len+1"
    } else if b < (1 << 16) {
        "small-absent"
    } else {
        "huge"
    }
}

/// input / output `b` is not the first one and its predecessor ends with a vector whose
/// length is not a multiple of 8
fn after_unaligned(z: &TxSpec, d: Dom, b: u64) -> bool {
    let un = |h: &HexBytes| h.0.len() % 8 != 0;
    if b == 0 {
        return false;
    }
    match d {
        Dom::In => (0..b as usize).any(|i| match z.inputs.get(i) {
            Some(InSpec::CoinPredicate { predicate, pdata, .. }) | Some(InSpec::MsgCoinPredicate { predicate, pdata, .. }) => un(predicate) || un(pdata),
            Some(InSpec::MsgDataSigned { data, .. }) => un(data),
            Some(InSpec::MsgDataPredicate { data, predicate, pdata, .. }) => un(data) || un(predicate) || un(pdata),
            _ => false,
        }),
        Dom::Out => z.inputs.iter().any(|i| after_unaligned_in(i)),
        Dom::Wit => (0..b as usize).any(|i| z.witnesses.get(i).is_some_and(un)),
        _ => false,
    }
}
fn after_unaligned_in(i: &InSpec) -> bool {
    let un = |h: &HexBytes| h.0.len() % 8 != 0;
    match i {
        InSpec::CoinPredicate { predicate, pdata, .. } | InSpec::MsgCoinPredicate { predicate, pdata, .. } => un(predicate) || un(pdata),
        InSpec::MsgDataSigned { data, .. } => un(data),
        InSpec::MsgDataPredicate { data, predicate, pdata, .. } => un(data) || un(predicate) || un(pdata),
        _ => false,
    }
}

// =================================================================== running one instruction

#[derive(Debug)]
enum Ran {
    Ok,
    Panic(PanicReason),
    Other(String),
}

struct Fixture<Tx: ExecutableTransaction> {
    vm: Vm<Tx>,
    init: [u64; 64],
    tx_offset: u64,
    tx_len: u64,
    predicate: bool,
}

impl<Tx: ExecutableTransaction> Fixture<Tx> {
    /// plant the registers, execute `raw`, return the outcome and the register file after it
    fn run(&mut self, raw: fuel_asm::Instruction, b: u64) -> (Ran, [u64; 64]) {
        let mut regs = self.init;
        regs[R_IDX as usize] = b;
        regs[0x09] = GAS;
        regs[0x0a] = GAS;
        self.vm.registers_mut()[..64].copy_from_slice(&regs);
        let r = if self.predicate { self.vm.instruction::<_, true>(raw) } else { self.vm.instruction::<_, false>(raw) };
        let mut after = [0u64; 64];
        after.copy_from_slice(&self.vm.registers()[..64]);
        let ran = match r {
            Ok(_) => Ran::Ok,
            Err(InterpreterError::PanicInstruction(p)) => Ran::Panic(*p.reason()),
            Err(InterpreterError::Panic(p)) => Ran::Panic(p),
            Err(e) => Ran::Other(format!("{e:?}")),
        };
        (ran, after)
    }

    fn planted(&self, b: u64) -> [u64; 64] {
        let mut regs = self.init;
        regs[R_IDX as usize] = b;
        regs[0x09] = GAS;
        regs[0x0a] = GAS;
        regs
    }

    fn mem(&self, at: u64, len: usize) -> Option<Vec<u8>> {
        self.vm.memory().read(at, len).ok().map(|s| s.to_vec())
    }
}

/// registers other than `dst`, `$pc` and the two gas counters must be unchanged; `$pc` advances
/// by one instruction on success and stays on a panic
fn frame_rule(name: &str, before: &[u64; 64], after: &[u64; 64], dst: u8, ok: bool) -> Check {
    for i in 0..64usize {
        if i == 0x09 || i == 0x0a {
            continue;
        }
        if i == RegId::PC.to_u8() as usize {
            let want = if ok { before[i] + 4 } else { before[i] };
            ensure_eq!(after[i], want, format!("frame:pc:{}", if ok { "ok" } else { "panic" }), "{name}: $pc after the instruction");
            continue;
        }
        if ok && i == dst as usize {
            continue;
        }
        ensure_eq!(after[i], before[i], format!("frame:register-clobbered:{}", if ok { "ok" } else { "panic" }), "{name}: register {i:#x} changed");
    }
    Ok(())
}

struct Tally {
    ok_val: u64,
    ok_ptr: u64,
    absent: u64,
    undefined: u64,
    reserved: u64,
}

#[allow(clippy::too_many_arguments)]
fn judge<Tx: ExecutableTransaction>(f: &Fixture<Tx>, sel: &str, b: u64, exp: &Exp, dst: u8, ran: &Ran, before: &[u64; 64], after: &[u64; 64], obs: &mut Obs, tally: &mut Tally) -> Check {
    let reserved = dst < 16;
    let shown = format!("{sel}[b={b}, dst={dst:#x}]");
    let name = sel;
    if let Ran::Other(e) = ran {
        fail!(format!("gtf:{name}:non-panic-error"), "{shown}: the instruction ended with {e}");
    }
    frame_rule(&shown, before, after, dst, matches!(ran, Ran::Ok))?;
    if reserved {
        let Ran::Panic(r) = ran else {
            fail!("reserved-register-written", "{shown}: writing reserved register {dst:#x} succeeded");
        };
        let extra: &[PanicReason] = match exp {
            Exp::Is(_) => &[],
            Exp::Absent(a) | Exp::DontCare(_, _, a) => a,
        };
        ensure!(*r == PR::ReservedRegisterNotWritable || extra.contains(r), format!("gtf:{name}:reserved-register-reason:{r:?}"), "{shown}: destination {dst:#x}: panic {r:?}");
        tally.reserved += 1;
        return Ok(());
    }
    let check_got = |g: &Got| -> Check {
        let got = after[dst as usize];
        match g {
            Got::Val(v) => ensure_eq!(got, *v, format!("gtf:{name}:value"), "{shown}: register value differs from the field of the in-memory transaction"),
            Got::Ptr(bytes) => {
                let end = f.tx_offset + f.tx_len;
                ensure!(
                    got >= f.tx_offset && got.checked_add(bytes.len() as u64).is_some_and(|e| e <= end) && (got < end || bytes.is_empty()),
                    format!("gtf:{name}:pointer-outside-tx"),
                    "{shown}: pointer {got} (+{}) is outside the transaction [{}, {})",
                    bytes.len(),
                    f.tx_offset,
                    end
                );
                let m = f.mem(got, bytes.len());
                ensure!(m.as_deref() == Some(&bytes[..]), format!("gtf:{name}:pointer-bytes"), "{shown}: memory at {got} holds {:?}, the field is {:?}", m.map(hex::encode), hex::encode(bytes));
            }
        }
        Ok(())
    };
    match (exp, ran) {
        (Exp::Is(g), Ran::Ok) => {
            check_got(g)?;
            match g {
                Got::Val(_) => tally.ok_val += 1,
                Got::Ptr(_) => tally.ok_ptr += 1,
            }
        }
        (Exp::Is(_), Ran::Panic(r)) => fail!(format!("gtf:{name}:panics-on-present-field:{r:?}"), "{shown}: the field exists but the instruction panicked with {r:?}"),
        (Exp::Absent(a), Ran::Panic(r)) => {
            ensure!(a.contains(r), format!("gtf:{name}:absent-reason:{r:?}"), "{shown}: absent field reported as {r:?}, admissible {a:?}");
            tally.absent += 1;
        }
        (Exp::Absent(_), Ran::Ok) => fail!(format!("gtf:{name}:answers-absent-field"), "{shown}: the field does not exist but the instruction returned {}", after[dst as usize]),
        (Exp::DontCare(label, g, _), Ran::Ok) => {
            check_got(g)?;
            obs.note(&format!("dont-care:{label}:answered"), 1);
        }
        (Exp::DontCare(label, _, a), Ran::Panic(r)) => {
            ensure!(a.contains(r), format!("gtf:{name}:absent-reason:{r:?}"), "{shown}: don't-care cell reported as {r:?}, admissible {a:?}");
            obs.note(&format!("dont-care:{label}:panicked"), 1);
        }
        (_, Ran::Other(_)) => unreachable!(),
    }
    Ok(())
}

// =================================================================== the case

#[derive(Debug, Clone, Serialize, Deserialize)]
pub struct Case {
    pub vc: ValidCase,
    /// gas price the interpreter is configured with
    pub gas_price: u64,
    /// Script transactions: 0,1 = script context, 2 = predicate verification, 3 = predicate estimation; other kinds: even = verification, odd = estimation
    pub mode: u8,
    /// which predicate input is being verified
    pub pred_sel: u16,
    /// the reserved destination register (0..16)
    pub reserved: u8,
    pub salt: u64,
    /// additionally sweep all 4096 immediates (instead of the neighbours of the defined ones)
    pub sweep: bool,
    /// keys of known findings (known_findings.jsonl): the check continues behind these and
    /// reports the first one only at the end of the case
    #[serde(default)]
    pub known: Vec<String>,
}

fn mix(salt: u64, n: u64) -> u64 {
    let mut z = salt ^ n.wrapping_mul(0x9E3779B97F4A7C15);
    z = (z ^ (z >> 30)).wrapping_mul(0xBF58476D1CE4E5B9);
    z = (z ^ (z >> 27)).wrapping_mul(0x94D049BB133111EB);
    z ^ (z >> 31)
}

/// make sure the spec asks for at least one predicate input (predicate contexts need one)
fn with_predicate(vc: &ValidCase, salt: u64) -> ValidCase {
    let mut vc = vc.clone();
    let a = Auth::Predicate { code: HexBytes(DEFAULT_PREDICATE.to_vec()), data: HexBytes(salt.to_le_bytes()[..(salt % 9) as usize].to_vec()), gas: 0 };
    // the first spendable input survives every clamp of the lowering: make it a predicate input
    // unless it is one already
    for i in vc.tx.inputs.iter_mut() {
        match i {
            VIn::Coin { auth, .. } | VIn::MsgCoin { auth, .. } => {
                if matches!(auth, Auth::Signed { .. }) {
                    *auth = a;
                }
                return vc;
            }
            _ => {}
        }
    }
    vc.tx.inputs.insert(0, VIn::MsgCoin { sender: B32([3; 32]), amount: 7, nonce: B32([4; 32]), auth: a });
    vc
}

fn owner_of(i: &InSpec) -> Option<B32> {
    match i {
        InSpec::CoinSigned { owner, .. } | InSpec::CoinPredicate { owner, .. } => Some(*owner),
        InSpec::Contract { .. } => None,
        InSpec::MsgCoinSigned { recipient, .. } | InSpec::MsgCoinPredicate { recipient, .. } | InSpec::MsgDataSigned { recipient, .. } | InSpec::MsgDataPredicate { recipient, .. } => Some(*recipient),
    }
}

/// owner of the transaction: the owner policy's input, else the owner shared by every input
/// that has one
fn tx_owner(z: &TxSpec) -> Option<B32> {
    if z.pol.mask & (1 << 5) != 0 {
        return at(&z.inputs, z.pol.vals[5]).and_then(owner_of);
    }
    let owners: BTreeSet<B32> = z.inputs.iter().filter_map(owner_of).collect();
    if owners.len() == 1 {
        owners.into_iter().next()
    } else {
        None
    }
}

fn is_predicate_input(i: &InSpec) -> bool {
    matches!(i, InSpec::CoinPredicate { .. } | InSpec::MsgCoinPredicate { .. } | InSpec::MsgDataPredicate { .. })
}

fn defined_selectors() -> Vec<(u16, GTFArgs)> {
    (0u16..4096).filter_map(|i| GTFArgs::try_from(i).ok().map(|a| (i, a))).collect()
}

fn run_tx<Tx>(tx: Tx, c: &Case, r: &Realized, z: &TxSpec, obs: &mut Obs) -> Check
where
    Tx: ExecutableTransaction + IntoChecked,
    <Tx as IntoChecked>::Metadata: CheckedMetadata,
{
    let params: &ConsensusParameters = &r.params;
    let kind = z.body.kind();
    let mut vm: Vm<Tx> = Interpreter::with_storage(MemoryInstance::new(), MemoryStorage::default(), InterpreterParams::new(c.gas_price, params));
    let checked = match tx.clone().into_checked_basic(r.height.into(), params) {
        Ok(c) => c,
        Err(e) => fail!("harness-validtx-invalid", "valid-TX refused by into_checked_basic: {e:?}"),
    };
    let preds: Vec<usize> = z.inputs.iter().enumerate().filter(|(_, i)| is_predicate_input(i)).map(|(i, _)| i).collect();
    let mut mode = if kind == 0 { [0u8, 0, 1, 2][(c.mode % 4) as usize] } else { 1 + c.mode % 2 };
    let mut ready = None;
    if mode == 0 {
        match checked.into_ready(0, params.gas_costs(), params.fee_params(), None) {
            Ok(rd) => ready = Some(rd),
            Err(_) => {
                obs.class("script:fee-limit-below-tip");
                mode = 1;
            }
        }
    }
    let mut verifying = None;
    if mode == 0 {
        let rd = ready.take().unwrap();
        let fresh = || -> Vm<Tx> { Interpreter::with_storage(MemoryInstance::new(), MemoryStorage::default(), InterpreterParams::new(c.gas_price, params)) };
        match catch_panic(|| vm.init_script(rd).map_err(|e| format!("{e:?}"))) {
            Ok(Ok(())) => {}
            Ok(Err(e)) if e.contains("BalanceOverflow") => {
                // free base-asset balance + retryable message amounts exceed a word: the checked
                // transaction cannot be initialised as a script; counted, predicate context instead
                obs.class("script:init-refused-balance-overflow");
                mode = 1;
                vm = fresh();
            }
            Ok(Err(e)) if e.contains("TransactionInputsMax") => {
                // more assets (the base asset always counts) than `max_inputs` balance slots: since
                // fix 5957d67 init_script refuses such a transaction (it used to panic, C29 F11);
                // counted, predicate context instead
                obs.class("script:init-refused-assets-exceed-max-inputs");
                mode = 1;
                vm = fresh();
            }
            Ok(Err(e)) => fail!("harness-init-script", "init_script failed: {e}"),
            Err((loc, _msg)) if loc.contains("interpreter/balances.rs") => {
                // more assets (the base asset always counts) than `max_inputs` balance slots:
                // RuntimeBalances::to_vm panics. Outside C05 (reported separately); counted
                obs.class("script:init-host-panic-balances-exceed-max-inputs");
                mode = 1;
                vm = fresh();
            }
            Err((loc, msg)) => fail!(format!("host-panic@{loc}"), "init_script panicked at {loc}: {msg}"),
        }
    }
    if mode != 0 {
        if preds.is_empty() {
            obs.class("skipped:no-predicate-input");
            return Ok(());
        }
        let idx = preds[pick(c.pred_sel, preds.len())];
        verifying = Some(idx as u64);
        let Some(program) = RuntimePredicate::from_tx(&tx, vm.tx_offset(), idx) else {
            fail!("harness-runtime-predicate", "RuntimePredicate::from_tx found no predicate at input {idx}");
        };
        let ctx = if mode == 1 { Context::PredicateVerification { program } } else { Context::PredicateEstimation { program } };
        if let Err(e) = vm.init_predicate(ctx, tx.clone(), GAS) {
            fail!("harness-init-predicate", "init_predicate failed: {e:?}");
        }
    }
    obs.class(&format!("kind:{kind}"));
    obs.class(["mode:script", "mode:predicate-verification", "mode:predicate-estimation"][mode as usize]);

    // ---- what must be in memory
    let want_bytes = AnyTx::Charge(z.clone()).build().to_bytes();
    let tx_offset = vm.tx_offset() as u64;
    let tx_len = want_bytes.len() as u64;
    let mut init = [0u64; 64];
    init.copy_from_slice(&vm.registers()[..64]);
    let mut f = Fixture { vm, init, tx_offset, tx_len, predicate: mode != 0 };

    // ---- GM
    let base_asset = r.base_asset();
    let chain_id: u64 = params.chain_id().into();
    let gm_cases: Vec<(u32, &str)> = (0u32..16).map(|i| (i, "")).chain([(0x3ffff, ""), (0x100, ""), (0x20000 | (mix(c.salt, 99) as u32 & 0x1ffff), "")]).collect();
    for (imm, _) in gm_cases {
        for dst in [0x10u8, 0x3f, c.reserved % 16] {
            let (ran, after) = f.run(op::gm(dst, imm), 0);
            let before = f.planted(0);
            let name = match GMArgs::try_from(imm) {
                Ok(a) => format!("gm:{a:?}"),
                Err(_) => "gm:undefined".to_string(),
            };
            if let Ran::Other(e) = &ran {
                fail!(format!("{name}:non-panic-error"), "{name}: {e}");
            }
            frame_rule(&name, &before, &after, dst, matches!(ran, Ran::Ok))?;
            let got = after[dst as usize];
            // expectation: Ok(value) | Ok(pointer to bytes [, preceded by bytes]) | panic set
            enum E {
                Val(u64),
                Ptr(Vec<u8>, bool),
                Panic(Vec<PanicReason>),
                AnyPanic,
            }
            let e = match GMArgs::try_from(imm) {
                Err(_) => E::Panic(vec![PR::InvalidMetadataIdentifier]),
                Ok(GMArgs::GetChainId) => E::Val(chain_id),
                Ok(GMArgs::BaseAssetId) => E::Ptr(base_asset.0.to_vec(), false),
                Ok(GMArgs::TxStart) => E::Ptr(want_bytes.clone(), true),
                Ok(GMArgs::GetGasPrice) => {
                    if mode == 0 {
                        E::Val(c.gas_price)
                    } else {
                        E::Panic(vec![PR::CanNotGetGasPriceInPredicate])
                    }
                }
                Ok(GMArgs::GetOwner) => match tx_owner(z) {
                    Some(o) => E::Ptr(o.0.to_vec(), true),
                    None => E::Panic(vec![PR::OwnerIsUnknown]),
                },
                Ok(GMArgs::GetVerifyingPredicate) => match verifying {
                    Some(i) => E::Val(i),
                    None => E::AnyPanic,
                },
                Ok(GMArgs::IsCallerExternal) | Ok(GMArgs::GetCaller) => E::Panic(vec![PR::ExpectedInternalContext]),
                #[allow(unreachable_patterns)]
                Ok(other) => fail!(format!("harness-unknown-gm-selector:{other:?}"), "GM selector {other:?} has no row in the C05 table"),
            };
            if dst < 16 {
                let Ran::Panic(p) = &ran else { fail!("reserved-register-written", "{name}: writing reserved register {dst:#x} succeeded") };
                let ok = *p == PR::ReservedRegisterNotWritable
                    || match &e {
                        E::Panic(a) => a.contains(p),
                        E::AnyPanic => true,
                        _ => false,
                    };
                ensure!(ok, format!("{name}:reserved-register-reason:{p:?}"), "{name}: destination {dst:#x}: panic {p:?}");
                continue;
            }
            match (e, &ran) {
                (E::Val(v), Ran::Ok) => ensure_eq!(got, v, format!("{name}:value"), "{name}: value"),
                (E::Ptr(bytes, in_tx), Ran::Ok) => {
                    if in_tx {
                        ensure!(got >= tx_offset && got + bytes.len() as u64 <= tx_offset + tx_len, format!("{name}:pointer-outside-tx"), "{name}: pointer {got} outside [{tx_offset}, {})", tx_offset + tx_len);
                    }
                    let m = f.mem(got, bytes.len());
                    ensure!(m.as_deref() == Some(&bytes[..]), format!("{name}:pointer-bytes"), "{name}: memory at {got} is {:?}, expected {:?}", m.map(|m| hex::encode(&m[..m.len().min(80)])), hex::encode(&bytes[..bytes.len().min(80)]));
                    if matches!(GMArgs::try_from(imm), Ok(GMArgs::TxStart)) {
                        let lenw = got.checked_sub(8).and_then(|a| f.mem(a, 8));
                        ensure!(lenw.as_deref() == Some(&tx_len.to_be_bytes()[..]), "gm:TxStart:length-word", "the word before the transaction is {:?}, the transaction has {tx_len} bytes", lenw);
                    }
                }
                (E::Panic(a), Ran::Panic(p)) => ensure!(a.contains(p), format!("{name}:panic-reason:{p:?}"), "{name}: panic {p:?}, admissible {a:?}"),
                (E::AnyPanic, Ran::Panic(_)) => obs.note("dont-care:gm-verifying-predicate-in-script:panic-reason", 1),
                (E::Val(_) | E::Ptr(..), Ran::Panic(p)) => fail!(format!("{name}:panics:{p:?}"), "{name}: panicked with {p:?} although the value is defined"),
                (E::Panic(_) | E::AnyPanic, Ran::Ok) => fail!(format!("{name}:answers-undefined"), "{name}: returned {got} although the value is not defined in this context"),
                (_, Ran::Other(_)) => unreachable!(),
            }
            obs.note(&format!("{name}:{}", if matches!(ran, Ran::Ok) { "ok" } else { "panic" }), 1);
        }
    }
    match tx_owner(z) {
        Some(_) if z.pol.mask & 32 != 0 => obs.class("owner:policy"),
        Some(_) => obs.class("owner:unique"),
        None => obs.class("owner:unknown"),
    }

    // ---- GTF: defined selectors
    let mut tally = Tally { ok_val: 0, ok_ptr: 0, absent: 0, undefined: 0, reserved: 0 };
    let defined = defined_selectors();
    let mut unaligned_ptr = false;
    let mut deferred: Option<Failure> = None;
    for (imm, sel) in &defined {
        let name = format!("{sel:?}");
        let Some((dom, _)) = expect(*sel, z, 0, tx_len) else {
            fail!(format!("harness-unknown-selector:{name}"), "GTF selector {name} ({imm:#x}) has no row in the C05 table");
        };
        let len = dom_len(z, dom);
        for (di, dst) in [0x10u8, 0x3f, R_IDX, c.reserved % 16].into_iter().enumerate() {
            let idxs = if di == 0 { index_set(len, true) } else { vec![0, len.saturating_sub(1), len, u64::MAX] };
            for b in idxs {
                let Some((_, exp)) = expect(*sel, z, b, tx_len) else {
                    fail!("harness-table-gap", "{name}: no expectation at index {b}");
                };
                // an index no vector can have: InvalidMetadataIdentifier is tolerated next to the
                // vector's own "not found" reason
                let exp = match exp {
                    Exp::Absent(a) if b > u16::MAX as u64 && dom != Dom::None => Exp::Absent(with_invalid_identifier(a)),
                    // selectors that take no index: the documentation does not say that $rB is
                    // ignored; an index register above 2^32 may be refused as an identifier
                    Exp::Is(g) if b > u32::MAX as u64 && dom == Dom::None => Exp::DontCare("unindexed-selector-with-index-above-u32", g, A_KIND),
                    Exp::Absent(a) if b > u32::MAX as u64 && dom == Dom::None && !a.contains(&PR::InvalidMetadataIdentifier) => Exp::Absent(with_invalid_identifier_pol(a)),
                    e => e,
                };
                let before = f.planted(b);
                let (ran, after) = f.run(op::gtf(dst, R_IDX, *imm), b);
                if let (Exp::Absent(_), Ran::Panic(PR::InvalidMetadataIdentifier), true) = (&exp, &ran, b > u16::MAX as u64 && dom != Dom::None) {
                    obs.note("dont-care:huge-index:invalid-metadata-identifier", 1);
                }
                if let Err(fl) = judge(&f, &name, b, &exp, dst, &ran, &before, &after, obs, &mut tally) {
                    // a known finding must not hide the cells behind it: remember it, go on
                    if c.known.contains(&fl.key) {
                        deferred.get_or_insert(fl);
                        continue;
                    }
                    return Err(fl);
                }
                if di == 0 {
                    if let (Exp::Is(g), Ran::Ok) = (&exp, &ran) {
                        obs.note(&format!("answered:{name}"), 1);
                        if matches!(g, Got::Ptr(_)) && after_unaligned(z, dom, b) {
                            unaligned_ptr = true;
                            obs.nontrivial(&(kind, *imm, index_class(b, len), mode));
                        }
                    }
                }
            }
        }
    }

    // ---- GTF: undefined immediates
    let is_def = |i: u16| GTFArgs::try_from(i).is_ok();
    let mut undefined: BTreeSet<u16> = BTreeSet::new();
    if c.sweep {
        undefined.extend((0u16..4096).filter(|i| !is_def(*i)));
        obs.class("sweep:all-4096-immediates");
    } else {
        for (imm, _) in &defined {
            for d in [imm.wrapping_sub(1), imm + 1] {
                if d < 4096 && !is_def(d) {
                    undefined.insert(d);
                }
            }
        }
        undefined.extend([0u16, 0xfff, 0x800 | 0x7ff]);
        for k in 0..8 {
            let i = (mix(c.salt, k) % 4096) as u16;
            if !is_def(i) {
                undefined.insert(i);
            }
        }
    }
    for imm in undefined {
        for (dst, b) in [(0x10u8, 0u64), (0x3f, u64::MAX), (c.reserved % 16, 0)] {
            let before = f.planted(b);
            let (ran, after) = f.run(op::gtf(dst, R_IDX, imm), b);
            frame_rule("undefined-immediate", &before, &after, dst, matches!(ran, Ran::Ok))?;
            match ran {
                Ran::Panic(PR::InvalidMetadataIdentifier) => tally.undefined += 1,
                Ran::Panic(PR::ReservedRegisterNotWritable) if dst < 16 => tally.undefined += 1,
                Ran::Panic(p) => fail!(format!("gtf:undefined-immediate:reason:{p:?}"), "immediate {imm:#x} is not a selector: panic {p:?}"),
                Ran::Ok => fail!("gtf:undefined-immediate:answered", "immediate {imm:#x} is not a selector but GTF returned {}", after[dst as usize]),
                Ran::Other(e) => fail!("gtf:undefined-immediate:non-panic-error", "immediate {imm:#x}: {e}"),
            }
        }
    }
    obs.note("gtf:ok-value", tally.ok_val);
    obs.note("gtf:ok-pointer", tally.ok_ptr);
    obs.note("gtf:panic-absent", tally.absent);
    obs.note("gtf:panic-undefined-immediate", tally.undefined);
    obs.note("gtf:panic-reserved-destination", tally.reserved);
    if unaligned_ptr {
        obs.class("pointer-after-unaligned-vector");
    }
    if z.inputs.len() >= 2 {
        obs.class("inputs>=2");
    }
    match deferred {
        Some(f) => Err(f),
        None => Ok(()),
    }
}

fn check(c: &Case, obs: &mut Obs) -> Check {
    let vc = if c.mode % 4 >= 2 || !matches!(c.vc.tx.body, crate::gens::validtx::VBody::Script { .. }) { with_predicate(&c.vc, c.salt) } else { c.vc.clone() };
    let r = vc.realize();
    let AnyTx::Charge(spec) = &r.spec else {
        fail!("harness-mint", "C05 does not generate Mint");
    };
    // expected in-memory transaction: malleable fields zeroed (C03 table), witnesses kept
    let AnyTx::Charge(mut z) = zero_malleable(&r.spec) else { unreachable!() };
    z.witnesses = spec.witnesses.clone();
    match r.transaction() {
        Transaction::Script(t) => run_tx(t, c, &r, &z, obs),
        Transaction::Create(t) => run_tx(t, c, &r, &z, obs),
        Transaction::Upgrade(t) => run_tx(t, c, &r, &z, obs),
        Transaction::Upload(t) => run_tx(t, c, &r, &z, obs),
        Transaction::Blob(t) => run_tx(t, c, &r, &z, obs),
        Transaction::Mint(_) => unreachable!(),
    }
}

fn case(known: Vec<String>) -> impl Strategy<Value = Case> {
    let tx = prop::sample::select(vec![0u8, 0, 1, 3, 4, 5]).prop_flat_map(valid_tx_kind);
    ((tx, params_any(), tight()), word(), 0u8..4, any::<u16>(), 0u8..16, any::<u64>(), prop::bool::weighted(0.03)).prop_map(move |((tx, params, tight), gas_price, mode, pred_sel, reserved, salt, sweep)| Case {
        vc: ValidCase { tx, params, tight },
        gas_price,
        mode,
        pred_sel,
        reserved,
        salt,
        sweep,
        known: known.clone(),
    })
}

pub fn property() -> Property {
    Property {
        id: "C05",
        rule: "valid-TX (Script, Create, Upgrade, Upload, Blob; standard and small consensus limits) initialised through init_script (Script) or init_predicate (verification / estimation context of a generated predicate input; five Tx instantiations); on the initialised VM every immediate accepted by GTFArgs::try_from (0..4096) is executed as `gtf dst, idx, imm` with idx in {0..min(len,12), len-1, len, len+1, 2^16, 2^16+1, 2^32, u64::MAX} (len = length of the vector the selector indexes) and dst in {0x10, 0x3f, the index register itself, a reserved register}; undefined immediates (neighbours of the defined ones + 8 random; all 4096 in 3% of the cases); all GM selectors 0..16 + 3 undefined. Oracle: table selector -> value | pointer(expected bytes) | absent(admissible panic reasons) | don't-care, evaluated on the harness's malleable-zeroed spec with the witnesses kept; pointer answers must lie inside [tx_offset, tx_offset+tx_size) and memory there must equal the expected bytes; registers other than dst/$pc/gas must be unchanged. Non-trivial = a pointer answer into an input/output/witness that is not the first and follows a vector whose length is not a multiple of 8; distinct by (kind, selector, index class, context)".into(),
        assumptions: vec![
            "the harness's zero_malleable (C03 table) describes what init_inner places in memory".into(),
            "canonical encoding of Input / Output / Witness / TxPointer / UpgradePurpose (C01, C04) is used to render expected bytes of whole elements".into(),
            "selector semantics from DESIGN.md Appendix B and the GTFArgs / GMArgs doc comments; InputCoin/MessagePredicateGasUsed are read as values (Appendix B) although their doc comment says 'Memory address of'".into(),
            "Interpreter::instruction executes exactly the given instruction on the planted register file".into(),
        ],
        parts: vec![gen_part("gtf-gm", "see property rule", (8_000, 200_000), |c: &Ctx| case(c.known.known.keys().filter(|(p, _)| p == "C05").map(|(_, k)| k.clone()).collect()), check)],
        floors: vec![("gtf-gm", "mode:script", 0.08), ("gtf-gm", "mode:predicate-verification", 0.2), ("gtf-gm", "pointer-after-unaligned-vector", 0.2), ("gtf-gm", "kind:1", 0.05), ("gtf-gm", "kind:3", 0.05), ("gtf-gm", "kind:4", 0.05), ("gtf-gm", "kind:5", 0.05)],
    }
}
