pub mod engine;
pub mod gens;
pub mod model;
pub mod props;
pub mod vm;
pub mod vmfix;

use engine::{Ctx, Known, Tier};

fn usage() -> ! {
    eprintln!("usage: fvverif <Cxx> quick|thorough | fvverif <Cxx> --replay FILE | fvverif --list");
    std::process::exit(2)
}

fn main() {
    let args: Vec<String> = std::env::args().skip(1).collect();
    if args.is_empty() {
        usage();
    }
    let reg = props::registry();
    if args[0] == "--list" {
        for (id, _) in &reg {
            println!("{id}");
        }
        return;
    }
    if args[0] == "--trace" && args.len() >= 2 {
        let j: serde_json::Value = serde_json::from_str(&std::fs::read_to_string(&args[1]).expect("read")).expect("json");
        let w = if j.get("case").is_some() { j["case"]["world"].clone() } else if j.get("world").is_some() { j["world"].clone() } else { j };
        let spec: vm::world::WorldSpec = serde_json::from_value(w).expect("world spec");
        vm::world::trace(&spec, args.get(2).and_then(|s| s.parse().ok()).unwrap_or(500));
        return;
    }
    let id = args[0].as_str();
    let Some((_, mk)) = reg.iter().find(|(i, _)| *i == id) else {
        eprintln!("unknown property {id}");
        std::process::exit(2)
    };
    engine::install_panic_hook();
    let prop = mk();
    let root = engine::verif_root();
    if args.len() >= 3 && args[1] == "--replay" {
        std::process::exit(engine::replay_file(&prop, std::path::Path::new(&args[2])));
    }
    let tier = match args.get(1).map(|s| s.as_str()).or(std::env::var("VERIF_TIER").ok().as_deref().map(|_| "env")) {
        Some("quick") => Tier::Quick,
        Some("thorough") => Tier::Thorough,
        Some("env") => match std::env::var("VERIF_TIER").unwrap().as_str() {
            "thorough" => Tier::Thorough,
            _ => Tier::Quick,
        },
        _ => usage(),
    };
    let seed: u64 = std::env::var("VERIF_SEED").ok().and_then(|s| s.trim().parse::<i128>().ok()).map(|v| v as u64).unwrap_or(0);
    let shards: usize = std::env::var("VERIF_SHARDS").ok().and_then(|s| s.parse().ok()).unwrap_or(16);
    let ctx = Ctx { tier, seed, shards, known: Known::load(&root) };
    // watchdog: a hang is reported as inconclusive (exit 2), never as a violation
    let limit = std::env::var("VERIF_WATCHDOG_S").ok().and_then(|s| s.parse().ok()).unwrap_or(tier.pick(1500u64, 6 * 3600));
    let pid = id.to_string();
    std::thread::spawn(move || {
        std::thread::sleep(std::time::Duration::from_secs(limit));
        println!("INCONCLUSIVE property={pid} watchdog after {limit}s");
        std::process::exit(2);
    });
    std::process::exit(engine::run_property(&prop, &ctx));
}
