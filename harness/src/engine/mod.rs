//! Engine: sharded proptest runner, enumerated parts, counters, evidence, replay files,
//! known findings. See DESIGN.md §1.

use proptest::strategy::{BoxedStrategy, Strategy};
use proptest::test_runner::{Config, RngAlgorithm, RngSeed, TestCaseError, TestError, TestRunner};
use serde::{de::DeserializeOwned, Serialize};
use serde_json::{json, Value};
use std::cell::RefCell;
use std::collections::{BTreeMap, BTreeSet, HashSet};
use std::hash::{Hash, Hasher};
use std::panic::{catch_unwind, AssertUnwindSafe};
use std::path::PathBuf;
use std::sync::Mutex;
use std::time::Instant;

#[derive(Clone, Copy, Debug, PartialEq, Eq)]
pub enum Tier {
    Quick,
    Thorough,
}

impl Tier {
    pub fn name(self) -> &'static str {
        match self {
            Tier::Quick => "quick",
            Tier::Thorough => "thorough",
        }
    }
    /// pick by tier
    pub fn pick<T>(self, quick: T, thorough: T) -> T {
        match self {
            Tier::Quick => quick,
            Tier::Thorough => thorough,
        }
    }
}

pub struct Ctx {
    pub tier: Tier,
    pub seed: u64,
    pub shards: usize,
    pub known: Known,
}

/// A violation of a property: `key` is the exact signature used to match known findings.
#[derive(Clone, Debug)]
pub struct Failure {
    pub key: String,
    pub msg: String,
}

impl Failure {
    pub fn new(key: impl Into<String>, msg: impl Into<String>) -> Self {
        Failure { key: key.into(), msg: msg.into() }
    }
}

pub type Check = Result<(), Failure>;

#[macro_export]
macro_rules! fail {
    ($key:expr, $($arg:tt)*) => {
        return Err($crate::engine::Failure::new($key, format!($($arg)*)))
    };
}

#[macro_export]
macro_rules! ensure {
    ($cond:expr, $key:expr, $($arg:tt)*) => {
        if !($cond) {
            return Err($crate::engine::Failure::new($key, format!($($arg)*)));
        }
    };
}

#[macro_export]
macro_rules! ensure_eq {
    ($a:expr, $b:expr, $key:expr, $($arg:tt)*) => {{
        let (a, b) = (&$a, &$b);
        if a != b {
            return Err($crate::engine::Failure::new(
                $key,
                format!("{}: left={:?} right={:?}", format!($($arg)*), a, b),
            ));
        }
    }};
}

/// Per-shard observation sink handed to every oracle.
#[derive(Default)]
pub struct Obs {
    pub classes: BTreeMap<String, u64>,
    pub nontrivial: HashSet<u64>,
    pub frozen: bool,
    pub want_sample: bool,
    pub known_hits: BTreeMap<String, u64>,
    pub notes: BTreeMap<String, u64>,
}

pub fn hash64<H: Hash + ?Sized>(h: &H) -> u64 {
    // SipHash with fixed zero keys: deterministic across processes.
    #[allow(deprecated)]
    let mut s = std::hash::SipHasher::new();
    h.hash(&mut s);
    s.finish()
}

impl Obs {
    pub fn class(&mut self, label: &str) {
        if !self.frozen {
            *self.classes.entry(label.to_string()).or_insert(0) += 1;
        }
    }
    /// mark the current case non-trivial; `sig` is its distinctness signature
    pub fn nontrivial<H: Hash + ?Sized>(&mut self, sig: &H) {
        if !self.frozen {
            if self.nontrivial.insert(hash64(sig)) {
                self.want_sample = true;
            }
        }
    }
    pub fn note(&mut self, label: &str, n: u64) {
        if !self.frozen {
            *self.notes.entry(label.to_string()).or_insert(0) += n;
        }
    }
}

// ---------------------------------------------------------------- panic capture

thread_local! {
    static LAST_PANIC: RefCell<Option<(String, String)>> = const { RefCell::new(None) };
    static QUIET: RefCell<bool> = const { RefCell::new(false) };
}

pub fn install_panic_hook() {
    let default = std::panic::take_hook();
    std::panic::set_hook(Box::new(move |info| {
        let loc = info
            .location()
            .map(|l| format!("{}:{}", l.file(), l.line()))
            .unwrap_or_else(|| "?".into());
        let msg = if let Some(s) = info.payload().downcast_ref::<&str>() {
            s.to_string()
        } else if let Some(s) = info.payload().downcast_ref::<String>() {
            s.clone()
        } else {
            "<non-string panic>".into()
        };
        let quiet = QUIET.with(|q| *q.borrow());
        LAST_PANIC.with(|p| *p.borrow_mut() = Some((loc, msg)));
        if !quiet {
            default(info);
        }
    }));
}

fn short_loc(loc: &str) -> String {
    // strip absolute prefix so keys are stable across checkouts
    let l = loc.strip_prefix("/repo/").unwrap_or(loc);
    l.to_string()
}

/// Run `f`, converting a host panic into a Failure keyed by its location.
pub fn guarded<R>(f: impl FnOnce() -> Result<R, Failure>) -> Result<R, Failure> {
    QUIET.with(|q| *q.borrow_mut() = true);
    LAST_PANIC.with(|p| *p.borrow_mut() = None);
    let r = catch_unwind(AssertUnwindSafe(f));
    QUIET.with(|q| *q.borrow_mut() = false);
    match r {
        Ok(r) => r,
        Err(_) => {
            let (loc, msg) = LAST_PANIC
                .with(|p| p.borrow_mut().take())
                .unwrap_or_else(|| ("?".into(), "?".into()));
            let mut m = msg;
            m.truncate(300);
            Err(Failure::new(format!("host-panic@{}", short_loc(&loc)), format!("host panic at {loc}: {m}")))
        }
    }
}

/// Like `guarded` but returns the panic (loc,msg) instead of a failure.
pub fn catch_panic<R>(f: impl FnOnce() -> R) -> Result<R, (String, String)> {
    QUIET.with(|q| *q.borrow_mut() = true);
    LAST_PANIC.with(|p| *p.borrow_mut() = None);
    let r = catch_unwind(AssertUnwindSafe(f));
    QUIET.with(|q| *q.borrow_mut() = false);
    r.map_err(|_| {
        let (loc, msg) = LAST_PANIC
            .with(|p| p.borrow_mut().take())
            .unwrap_or_else(|| ("?".into(), "?".into()));
        (short_loc(&loc), msg)
    })
}

// ---------------------------------------------------------------- known findings

#[derive(Clone, Debug, Default)]
pub struct Known {
    /// (property, key) -> what ; status "known" only
    pub known: BTreeMap<(String, String), String>,
    pub fixed: BTreeMap<(String, String), String>,
}

impl Known {
    pub fn load(root: &std::path::Path) -> Known {
        let mut k = Known::default();
        let p = root.join("known_findings.jsonl");
        if let Ok(s) = std::fs::read_to_string(&p) {
            for line in s.lines() {
                let line = line.trim();
                if line.is_empty() || line.starts_with('#') {
                    continue;
                }
                let v: Value = match serde_json::from_str(line) {
                    Ok(v) => v,
                    Err(e) => {
                        eprintln!("known_findings.jsonl: bad line: {e}");
                        std::process::exit(2);
                    }
                };
                let prop = v["property"].as_str().unwrap_or("").to_string();
                let key = v["key"].as_str().unwrap_or("").to_string();
                let what = v["what"].as_str().unwrap_or("").to_string();
                match v["status"].as_str() {
                    Some("known") => {
                        k.known.insert((prop, key), what);
                    }
                    Some("fixed") => {
                        k.fixed.insert((prop, key), what);
                    }
                    _ => {}
                }
            }
        }
        k
    }
    pub fn is_known(&self, prop: &str, key: &str) -> bool {
        self.known.contains_key(&(prop.to_string(), key.to_string()))
    }
}

// ---------------------------------------------------------------- parts

pub struct ShardOut {
    pub evals: u64,
    pub obs: Obs,
    pub samples: Vec<Value>,
    pub failure: Option<(Value, Failure)>,
}

pub trait PartDyn: Sync + Send {
    fn name(&self) -> &str;
    fn rule(&self) -> &str;
    fn exhaustive(&self) -> bool {
        false
    }
    fn run_shard(&self, prop: &str, ctx: &Ctx, shard: usize) -> ShardOut;
    fn replay(&self, case: Value) -> Result<(), Failure>;
}

fn slow_ms() -> Option<u64> {
    std::env::var("VERIF_SLOW_MS").ok().and_then(|s| s.parse().ok())
}

fn splitmix(mut x: u64) -> u64 {
    x = x.wrapping_add(0x9E3779B97F4A7C15);
    let mut z = x;
    z = (z ^ (z >> 30)).wrapping_mul(0xBF58476D1CE4E5B9);
    z = (z ^ (z >> 27)).wrapping_mul(0x94D049BB133111EB);
    z ^ (z >> 31)
}

pub fn shard_seed(seed: u64, prop: &str, part: &str, shard: usize) -> [u8; 32] {
    let base = splitmix(seed ^ hash64(&(prop, part)));
    let mut out = [0u8; 32];
    let mut x = base ^ splitmix(shard as u64 + 1);
    for i in 0..4 {
        x = splitmix(x);
        out[i * 8..i * 8 + 8].copy_from_slice(&x.to_le_bytes());
    }
    out
}

fn compact_sample(v: Value) -> Value {
    let s = v.to_string();
    if s.len() > 3000 {
        let mut t: String = s.chars().take(3000).collect();
        t.push_str("…(truncated)");
        Value::String(t)
    } else {
        v
    }
}

/// A part driven by a proptest strategy.
pub struct GenPart<T> {
    pub name: String,
    pub rule: String,
    pub cases: (u64, u64),
    pub strat: Box<dyn Fn(&Ctx) -> BoxedStrategy<T> + Sync + Send>,
    pub check: Box<dyn Fn(&T, &mut Obs) -> Check + Sync + Send>,
    pub shrink_iters: u32,
}

pub fn gen_part<T, S>(
    name: &str,
    rule: &str,
    cases: (u64, u64),
    strat: impl Fn(&Ctx) -> S + Sync + Send + 'static,
    check: impl Fn(&T, &mut Obs) -> Check + Sync + Send + 'static,
) -> Box<dyn PartDyn>
where
    T: std::fmt::Debug + Serialize + DeserializeOwned + 'static,
    S: Strategy<Value = T> + 'static,
{
    Box::new(GenPart {
        name: name.to_string(),
        rule: rule.to_string(),
        cases,
        strat: Box::new(move |c| strat(c).boxed()),
        check: Box::new(check),
        shrink_iters: 4000,
    })
}

impl<T> PartDyn for GenPart<T>
where
    T: std::fmt::Debug + Serialize + DeserializeOwned + 'static,
{
    fn name(&self) -> &str {
        &self.name
    }
    fn rule(&self) -> &str {
        &self.rule
    }
    fn run_shard(&self, prop: &str, ctx: &Ctx, shard: usize) -> ShardOut {
        let total = ctx.tier.pick(self.cases.0, self.cases.1);
        let per = (total + ctx.shards as u64 - 1) / ctx.shards as u64;
        let seed = shard_seed(ctx.seed, prop, &self.name, shard);
        let cfg = Config {
            cases: per as u32,
            failure_persistence: None,
            max_shrink_iters: self.shrink_iters,
            max_global_rejects: 65536,
            rng_seed: RngSeed::Fixed(u64::from_le_bytes(seed[..8].try_into().unwrap())),
            rng_algorithm: RngAlgorithm::ChaCha,
            ..Config::default()
        };
        let mut runner = TestRunner::new(cfg);
        let strat = (self.strat)(ctx);
        let obs = RefCell::new(Obs::default());
        let evals = RefCell::new(0u64);
        let samples = RefCell::new(Vec::<Value>::new());
        let first_fail: RefCell<Option<Failure>> = RefCell::new(None);
        let res = runner.run(&strat, |case| {
            let mut o = obs.borrow_mut();
            if !o.frozen {
                *evals.borrow_mut() += 1;
            }
            o.want_sample = false;
            let t0 = Instant::now();
            let r = guarded(|| (self.check)(&case, &mut o));
            if let Some(ms) = slow_ms() {
                // diagnostics only (never a verdict): report slow cases
                if t0.elapsed().as_millis() as u64 > ms {
                    let mut s = serde_json::to_string(&case).unwrap_or_default();
                    s.truncate(6000);
                    eprintln!("SLOW-CASE {}ms part={} shard={}: {}", t0.elapsed().as_millis(), self.name, shard, s);
                }
            }
            if o.want_sample && !o.frozen && samples.borrow().len() < 2 {
                if let Ok(v) = serde_json::to_value(&case) {
                    samples.borrow_mut().push(compact_sample(v));
                }
            }
            match r {
                Ok(()) => Ok(()),
                Err(f) => {
                    if ctx.known.is_known(prop, &f.key) {
                        if !o.frozen {
                            *o.known_hits.entry(f.key.clone()).or_insert(0) += 1;
                        }
                        Ok(())
                    } else {
                        o.frozen = true;
                        let m = format!("{}\u{1}{}", f.key, f.msg);
                        *first_fail.borrow_mut() = Some(f);
                        Err(TestCaseError::fail(m))
                    }
                }
            }
        });
        let failure = match res {
            Ok(()) => None,
            Err(TestError::Fail(reason, case)) => {
                let r = reason.message().to_string();
                let (k, m) = r.split_once('\u{1}').unwrap_or(("unknown", &r));
                let v = serde_json::to_value(&case).unwrap_or(Value::String(format!("{case:?}")));
                Some((v, Failure::new(k, m)))
            }
            Err(TestError::Abort(reason)) => Some((
                Value::Null,
                Failure::new("harness-abort", format!("proptest aborted: {}", reason.message())),
            )),
        };
        ShardOut { evals: evals.into_inner(), obs: obs.into_inner(), samples: samples.into_inner(), failure }
    }
    fn replay(&self, case: Value) -> Result<(), Failure> {
        let t: T = serde_json::from_value(case)
            .map_err(|e| Failure::new("harness-replay-decode", format!("cannot decode case: {e}")))?;
        let mut o = Obs::default();
        guarded(|| (self.check)(&t, &mut o))
    }
}

/// A part that enumerates a finite space (no shrinking; first failure per shard reported).
pub struct EnumPart<T> {
    pub name: String,
    pub rule: String,
    pub exhaustive: bool,
    /// enumerate(ctx, shard, nshards, sink): sink returns false to stop
    pub enumerate: Box<dyn Fn(&Ctx, usize, usize, &mut dyn FnMut(T) -> bool) + Sync + Send>,
    pub check: Box<dyn Fn(&T, &mut Obs) -> Check + Sync + Send>,
}

pub fn enum_part<T>(
    name: &str,
    rule: &str,
    exhaustive: bool,
    enumerate: impl Fn(&Ctx, usize, usize, &mut dyn FnMut(T) -> bool) + Sync + Send + 'static,
    check: impl Fn(&T, &mut Obs) -> Check + Sync + Send + 'static,
) -> Box<dyn PartDyn>
where
    T: std::fmt::Debug + Serialize + DeserializeOwned + 'static,
{
    Box::new(EnumPart {
        name: name.to_string(),
        rule: rule.to_string(),
        exhaustive,
        enumerate: Box::new(enumerate),
        check: Box::new(check),
    })
}

impl<T> PartDyn for EnumPart<T>
where
    T: std::fmt::Debug + Serialize + DeserializeOwned + 'static,
{
    fn name(&self) -> &str {
        &self.name
    }
    fn rule(&self) -> &str {
        &self.rule
    }
    fn exhaustive(&self) -> bool {
        self.exhaustive
    }
    fn run_shard(&self, prop: &str, ctx: &Ctx, shard: usize) -> ShardOut {
        let mut obs = Obs::default();
        let mut evals = 0u64;
        let mut samples = Vec::new();
        let mut failure = None;
        (self.enumerate)(ctx, shard, ctx.shards, &mut |case: T| {
            evals += 1;
            obs.want_sample = false;
            let r = guarded(|| (self.check)(&case, &mut obs));
            if obs.want_sample && samples.len() < 2 {
                if let Ok(v) = serde_json::to_value(&case) {
                    samples.push(compact_sample(v));
                }
            }
            match r {
                Ok(()) => true,
                Err(f) => {
                    if ctx.known.is_known(prop, &f.key) {
                        *obs.known_hits.entry(f.key.clone()).or_insert(0) += 1;
                        true
                    } else {
                        let v = serde_json::to_value(&case).unwrap_or(Value::Null);
                        failure = Some((v, f));
                        false
                    }
                }
            }
        });
        ShardOut { evals, obs, samples, failure }
    }
    fn replay(&self, case: Value) -> Result<(), Failure> {
        let t: T = serde_json::from_value(case)
            .map_err(|e| Failure::new("harness-replay-decode", format!("cannot decode case: {e}")))?;
        let mut o = Obs::default();
        guarded(|| (self.check)(&t, &mut o))
    }
}

// ---------------------------------------------------------------- property runner

pub struct Property {
    pub id: &'static str,
    pub rule: String,
    pub assumptions: Vec<String>,
    pub parts: Vec<Box<dyn PartDyn>>,
    /// class floors: (part, label, minimal share of evaluations); violated => exit 2
    pub floors: Vec<(&'static str, &'static str, f64)>,
}

pub fn verif_root() -> PathBuf {
    if let Ok(r) = std::env::var("VERIF_ROOT") {
        return PathBuf::from(r);
    }
    let p = PathBuf::from(env!("CARGO_MANIFEST_DIR"));
    p.parent().map(|p| p.to_path_buf()).unwrap_or(p)
}

pub struct PartReport {
    pub name: String,
    pub evals: u64,
    pub distinct: u64,
    pub classes: BTreeMap<String, u64>,
    pub notes: BTreeMap<String, u64>,
    pub samples: Vec<Value>,
    pub known_hits: BTreeMap<String, u64>,
    pub failure: Option<(Value, Failure, usize)>,
    pub exhaustive: bool,
    pub rule: String,
}

pub fn run_part(prop: &str, ctx: &Ctx, part: &dyn PartDyn) -> PartReport {
    let outs: Mutex<Vec<(usize, ShardOut)>> = Mutex::new(Vec::new());
    std::thread::scope(|s| {
        for shard in 0..ctx.shards {
            let outs = &outs;
            std::thread::Builder::new()
                .stack_size(64 << 20)
                .spawn_scoped(s, move || {
                    let o = part.run_shard(prop, ctx, shard);
                    outs.lock().unwrap().push((shard, o));
                })
                .expect("spawn");
        }
    });
    let mut outs = outs.into_inner().unwrap();
    outs.sort_by_key(|(s, _)| *s);
    let mut rep = PartReport {
        name: part.name().to_string(),
        evals: 0,
        distinct: 0,
        classes: BTreeMap::new(),
        notes: BTreeMap::new(),
        samples: vec![],
        known_hits: BTreeMap::new(),
        failure: None,
        exhaustive: part.exhaustive(),
        rule: part.rule().to_string(),
    };
    let mut set: HashSet<u64> = HashSet::new();
    for (shard, o) in outs {
        rep.evals += o.evals;
        for (k, v) in o.obs.classes {
            *rep.classes.entry(k).or_insert(0) += v;
        }
        for (k, v) in o.obs.notes {
            *rep.notes.entry(k).or_insert(0) += v;
        }
        for (k, v) in o.obs.known_hits {
            *rep.known_hits.entry(k).or_insert(0) += v;
        }
        set.extend(o.obs.nontrivial);
        for s in o.samples {
            if rep.samples.len() < 3 {
                rep.samples.push(s);
            }
        }
        if rep.failure.is_none() {
            if let Some((c, f)) = o.failure {
                rep.failure = Some((c, f, shard));
            }
        }
    }
    rep.distinct = set.len() as u64;
    rep
}

pub struct RunResult {
    pub exit: i32,
}

fn load_regress(root: &std::path::Path, prop: &str) -> Vec<(PathBuf, Value)> {
    let mut v = vec![];
    let dirs = [root.join("harness/regress").join(prop), root.join("replays")];
    for (i, d) in dirs.iter().enumerate() {
        if let Ok(rd) = std::fs::read_dir(d) {
            let mut files: Vec<_> = rd.filter_map(|e| e.ok()).map(|e| e.path()).collect();
            files.sort();
            for f in files {
                let name = f.file_name().and_then(|n| n.to_str()).unwrap_or("").to_string();
                if !name.ends_with(".json") {
                    continue;
                }
                if i == 1 && !name.starts_with(&format!("{prop}-")) {
                    continue;
                }
                if let Ok(s) = std::fs::read_to_string(&f) {
                    if let Ok(j) = serde_json::from_str::<Value>(&s) {
                        v.push((f, j));
                    }
                }
            }
        }
    }
    v
}

fn write_replay(root: &std::path::Path, prop: &str, part: &str, seed: u64, shard: usize, case: &Value, f: &Failure) -> PathBuf {
    let dir = root.join("replays");
    let _ = std::fs::create_dir_all(&dir);
    let body = json!({
        "property": prop, "part": part, "seed": seed, "shard": shard,
        "key": f.key, "message": f.msg, "case": case,
    });
    let h = hash64(&body.to_string());
    let path = dir.join(format!("{prop}-{h:016x}.json"));
    let _ = std::fs::write(&path, serde_json::to_string_pretty(&body).unwrap());
    path
}

pub fn replay_file(p: &Property, path: &std::path::Path) -> i32 {
    let s = match std::fs::read_to_string(path) {
        Ok(s) => s,
        Err(e) => {
            eprintln!("cannot read {}: {e}", path.display());
            return 2;
        }
    };
    let j: Value = match serde_json::from_str(&s) {
        Ok(j) => j,
        Err(e) => {
            eprintln!("cannot parse {}: {e}", path.display());
            return 2;
        }
    };
    let part = j["part"].as_str().unwrap_or("");
    let Some(pt) = p.parts.iter().find(|x| x.name() == part) else {
        eprintln!("no part {part} in {}", p.id);
        return 2;
    };
    match pt.replay(j["case"].clone()) {
        Ok(()) => {
            println!("REPLAY-PASS property={} part={part} file={}", p.id, path.display());
            0
        }
        Err(f) if f.key.starts_with("harness-") => {
            eprintln!("replay harness problem: {}", f.msg);
            2
        }
        Err(f) => {
            println!("REPLAY-FAIL key={} :: {}", f.key, f.msg);
            println!("VIOLATION property={} replay={}", p.id, path.display());
            1
        }
    }
}

pub fn run_property(p: &Property, ctx: &Ctx) -> i32 {
    let t0 = Instant::now();
    let root = verif_root();
    let mut violations: Vec<(String, PathBuf, Failure)> = vec![];
    let mut known_seen: BTreeMap<String, u64> = BTreeMap::new();
    let mut harness_problem: Option<String> = None;

    // 1. regression / replay tier
    let mut replayed = 0u64;
    for (path, j) in load_regress(&root, p.id) {
        let part = j["part"].as_str().unwrap_or("");
        let Some(pt) = p.parts.iter().find(|x| x.name() == part) else { continue };
        replayed += 1;
        match pt.replay(j["case"].clone()) {
            Ok(()) => {}
            Err(f) if f.key.starts_with("harness-") => {
                eprintln!("note: regress file {} not decodable ({}); skipped", path.display(), f.msg);
            }
            Err(f) => {
                if ctx.known.is_known(p.id, &f.key) {
                    *known_seen.entry(f.key.clone()).or_insert(0) += 1;
                } else {
                    violations.push((part.to_string(), path.clone(), f));
                }
            }
        }
    }

    // 2. search
    let mut reports = vec![];
    for part in &p.parts {
        let pt0 = Instant::now();
        let rep = run_part(p.id, ctx, part.as_ref());
        eprintln!(
            "[{}] part {:<28} evals={:<9} distinct_nontrivial={:<8} {:.1}s{}",
            p.id,
            rep.name,
            rep.evals,
            rep.distinct,
            pt0.elapsed().as_secs_f64(),
            if rep.failure.is_some() { "  FAIL" } else { "" }
        );
        for (k, v) in &rep.known_hits {
            *known_seen.entry(k.clone()).or_insert(0) += v;
        }
        if let Some((case, f, shard)) = &rep.failure {
            if f.key.starts_with("harness-") {
                harness_problem = Some(format!("{}: {}", rep.name, f.msg));
            } else {
                let path = write_replay(&root, p.id, &rep.name, ctx.seed, *shard, case, f);
                violations.push((rep.name.clone(), path, f.clone()));
            }
        }
        reports.push(rep);
    }

    // 3. floors
    for (part, label, min) in &p.floors {
        if let Some(r) = reports.iter().find(|r| r.name == *part) {
            if r.failure.is_some() {
                continue;
            }
            let c = *r.classes.get(*label).unwrap_or(&0) as f64;
            let share = if r.evals == 0 { 0.0 } else { c / r.evals as f64 };
            if share < *min {
                harness_problem = Some(format!(
                    "generator floor: part {part} class '{label}' share {share:.4} < {min}"
                ));
            }
        }
    }

    // 4. evidence
    let evals: u64 = reports.iter().map(|r| r.evals).sum::<u64>();
    let distinct: u64 = reports.iter().map(|r| r.distinct).sum();
    let mut samples = vec![];
    let mut classes = serde_json::Map::new();
    let mut parts_j = vec![];
    let mut exhaustive_sub = vec![];
    for r in &reports {
        for s in &r.samples {
            samples.push(json!({"part": r.name, "case": s}));
        }
        let mut cj = serde_json::Map::new();
        for (k, v) in &r.classes {
            cj.insert(k.clone(), json!(v));
        }
        classes.insert(r.name.clone(), Value::Object(cj));
        parts_j.push(json!({
            "part": r.name, "evaluations": r.evals, "distinct_nontrivial": r.distinct,
            "rule": r.rule, "exhaustive": r.exhaustive, "notes": r.notes,
            "failed": r.failure.is_some(),
        }));
        if r.exhaustive {
            exhaustive_sub.push(r.name.clone());
        }
    }
    if samples.is_empty() {
        // fall back: no non-trivial sample captured
        samples.push(json!({"note": "no non-trivial case captured on this run"}));
    }
    let excluded: u64 = known_seen.values().sum();
    let all_exh = !reports.is_empty() && reports.iter().all(|r| r.exhaustive);
    let ev = json!({
        "property_id": p.id,
        "tier": ctx.tier.name(),
        "seed": ctx.seed,
        "level": "exploration",
        "coverage": {
            "evaluations": evals + replayed,
            "distinct_nontrivial": distinct,
            "rule": p.rule,
            "samples": samples,
            "classes": Value::Object(classes),
            "parts": parts_j,
            "replayed_regressions": replayed,
            "excluded_known": excluded,
            "known_findings_hit": known_seen,
            "exhaustive_subspaces": exhaustive_sub,
            "exhaustive": all_exh,
            "shards": ctx.shards,
        },
        "assumptions": p.assumptions,
        "wall_s": t0.elapsed().as_secs_f64(),
        "violations": violations.len(),
    });
    let evdir = root.join("evidence");
    let _ = std::fs::create_dir_all(&evdir);
    let evpath = evdir.join(format!("{}.json", p.id));
    if let Err(e) = std::fs::write(&evpath, serde_json::to_string_pretty(&ev).unwrap()) {
        eprintln!("cannot write evidence: {e}");
        return 2;
    }

    // 5. verdict
    let listed: BTreeSet<&(String, String)> = ctx.known.known.keys().filter(|(pr, _)| pr == p.id).collect();
    for (pr, key) in listed {
        let what = &ctx.known.known[&(pr.clone(), key.clone())];
        let n = known_seen.get(key).copied().unwrap_or(0);
        println!("KNOWN-FINDING: property={} key={} hits={} {}", p.id, key, n, what);
    }
    if !violations.is_empty() {
        for (part, path, f) in &violations {
            println!("FAIL part={part} key={} :: {}", f.key, f.msg);
            println!("VIOLATION property={} replay={}", p.id, path.display());
        }
        return 1;
    }
    if let Some(h) = harness_problem {
        println!("INCONCLUSIVE property={} {}", p.id, h);
        return 2;
    }
    println!(
        "OK property={} tier={} seed={} evaluations={} distinct_nontrivial={} wall={:.1}s",
        p.id,
        ctx.tier.name(),
        ctx.seed,
        evals + replayed,
        distinct,
        t0.elapsed().as_secs_f64()
    );
    0
}
