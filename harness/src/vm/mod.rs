//! VM worlds, program grammar and the stepping monitor (DESIGN.md §2 G-PROG).
pub mod prog;
pub mod world;
