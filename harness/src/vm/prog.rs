//! G-PROG: grammar of *aimed* instruction templates (DESIGN.md §2).  A program is
//! `prelude ++ flatten(emit(tpl))`; templates are plain serde data so whole programs shrink.

use fuel_asm::{op, GMArgs, GTFArgs, Instruction, RegId};
use proptest::prelude::*;
use serde::{Deserialize, Serialize};

// ---- register conventions (set up by the prelude)
pub const R_DATA: u8 = 0x10; // script data start
pub const R_CIDS: u8 = 0x11; // contract id table
pub const R_ASSETS: u8 = 0x12; // asset id table
pub const R_CALLS: u8 = 0x13; // Call structs
pub const R_KEYS: u8 = 0x14; // storage keys / sub ids
pub const R_ADDRS: u8 = 0x15; // addresses
pub const R_BLOBS: u8 = 0x16; // blob ids
pub const R_RAW: u8 = 0x17; // 8 generated words + raw bytes
pub const R_HA: u8 = 0x18; // heap buffer A (256 B)
pub const R_HB: u8 = 0x19; // heap buffer B (512 B)
pub const R_ST: u8 = 0x1a; // stack buffer (512 B)
pub const R_CNT: u8 = 0x1b; // loop counter
pub const T0: u8 = 0x30;
pub const T1: u8 = 0x31;
pub const T2: u8 = 0x32;
pub const T3: u8 = 0x33;
pub const HA_LEN: u32 = 256;
pub const HB_LEN: u32 = 512;
pub const ST_LEN: u32 = 512;

/// layout of the script-data table, filled by the world builder
#[derive(Debug, Clone, Default, Serialize, Deserialize)]
pub struct Layout {
    pub off_cids: u16,
    pub n_cids: u8,
    pub off_assets: u16,
    pub n_assets: u8,
    pub off_calls: u16,
    pub n_calls: u8,
    pub off_keys: u16,
    pub n_keys: u8,
    pub off_addrs: u16,
    pub n_addrs: u8,
    pub off_blobs: u16,
    pub n_blobs: u8,
    pub off_raw: u16,
    pub raw_len: u16,
    pub balances_offset: u32,
    pub var_out_start: u16,
    pub n_var_out: u8,
    /// number of leading entries of the contract-id / blob tables that exist in storage
    pub n_real_cids: u8,
    pub n_real_blobs: u8,
    /// contract index targeted by each Call struct
    pub call_targets: Vec<u8>,
    /// when set, a contract only calls contracts with a larger index (call graph is a DAG)
    pub dag: bool,
    /// index of the contract being assembled (None for the script)
    pub self_idx: Option<u8>,
}

#[derive(Debug, Clone, Copy, PartialEq, Eq, Hash, Serialize, Deserialize)]
pub enum Base {
    HeapA,
    HeapB,
    Stack,
    Data,
    Raw,
    Code,
    Zero,
    Top,
    Gap,
    Fp,
    Sp,
    Ssp,
    Hp,
    Bal,
    Reg(u8),
}

#[derive(Debug, Clone, Copy, PartialEq, Eq, Hash, Serialize, Deserialize)]
pub struct Ptr {
    pub base: Base,
    pub off: i16,
}

#[derive(Debug, Clone, Copy, PartialEq, Eq, Hash, Serialize, Deserialize)]
pub enum Val {
    Imm(u32),
    Reg(u8),
    /// k-th generated word of the raw table
    Word(u8),
    Max,
    /// index of the k-th variable output of the transaction
    VarOut(u8),
}

#[derive(Debug, Clone, Copy, PartialEq, Eq, Hash, Serialize, Deserialize)]
pub enum MemOp {
    Lb,
    Lw,
    Sb,
    Sw,
    Lqw,
    Lhw,
    Sqw,
    Shw,
    Mcl,
    Mcli,
    Mcp,
    Mcpi,
    Meq,
}

#[derive(Debug, Clone, Copy, PartialEq, Eq, Hash, Serialize, Deserialize)]
pub enum StackOp {
    Cfei,
    Cfsi,
    Cfe,
    Cfs,
    Pshl,
    Pshh,
    Popl,
    Poph,
}

#[derive(Debug, Clone, Copy, PartialEq, Eq, Hash, Serialize, Deserialize)]
pub enum JumpKind {
    Ji,
    Jnei,
    Jnzi,
    Jmp,
    Jne,
    Jmpf,
    Jmpb,
    Jnzf,
    Jnzb,
    Jnef,
    Jneb,
    Jal,
}

#[derive(Debug, Clone, Copy, PartialEq, Eq, Hash, Serialize, Deserialize)]
pub enum StOp {
    Srw,
    Srwq,
    Sww,
    Swwq,
    Scwq,
    Sclr,
    Srdd,
    Srdi,
    Swrd,
    Swri,
    Supd,
    Supi,
    Spld,
}

#[derive(Debug, Clone, Copy, PartialEq, Eq, Hash, Serialize, Deserialize)]
pub enum CodeOp {
    Ldc0,
    Ldc1,
    Ldc2,
    LdcBad,
    Ccp,
    Csiz,
    Croo,
    Bsiz,
    Bldd,
}

#[derive(Debug, Clone, Copy, PartialEq, Eq, Hash, Serialize, Deserialize)]
pub enum CryptoOp {
    S256,
    K256,
    Eck1,
    Ecr1,
    Ed19,
}

#[derive(Debug, Clone, PartialEq, Eq, Hash, Serialize, Deserialize)]
pub enum Tpl {
    Raw(u32),
    /// three-register op by opcode byte (ALU etc.)
    Op3 { op: u8, d: u8, a: u8, b: u8 },
    /// register-register-imm12 op by opcode byte
    OpI { op: u8, d: u8, a: u8, imm: u16 },
    Not { d: u8, a: u8 },
    Move { d: u8, a: u8 },
    Movi { d: u8, imm: u32 },
    LoadWord { d: u8, k: u8 },
    Mldv { d: u8, a: u8, b: u8, c: u8 },
    Niop { d: u8, a: u8, b: u8, imm: u8 },
    Wide { op: u8, d: Ptr, a: Ptr, b: Ptr, c: Ptr, imm: u8 },
    Mem { op: MemOp, d: u8, p: Ptr, q: Ptr, len: Val, imm: u16 },
    Stack { op: StackOp, n: u32, r: Val },
    Aloc { len: Val },
    /// delta in instructions relative to this instruction; guarded backward jumps decrement R_CNT
    Jump { kind: JumpKind, delta: i8, a: u8, b: u8, guarded: bool },
    SetCnt { n: u8 },
    Call { call: u8, coins: Val, asset: u8, gas: Val },
    Ret { v: Val },
    Retd { p: Ptr, len: Val },
    Rvrt { v: Val },
    Tr { cid: u8, amount: Val, asset: u8 },
    Tro { addr: u8, out: Val, amount: Val, asset: u8 },
    Mint { amount: Val, sub: u8 },
    Burn { amount: Val, sub: u8 },
    Smo { addr: u8, p: Ptr, len: Val, coins: Val },
    Bal { d: u8, asset: u8, cid: u8 },
    Log { a: u8, b: u8, c: u8, d: u8 },
    Logd { a: u8, b: u8, p: Ptr, len: Val },
    Storage { op: StOp, key: u8, key_ptr: Option<Ptr>, p: Ptr, a: Val, b: Val, imm: u16 },
    Code { op: CodeOp, id: u8, dst: Ptr, off: Val, len: Val, reset: bool },
    PushPop { hi: bool, mask: u32 },
    Gtf { d: u8, arg: Val, sel: u16 },
    Gm { d: u8, sel: u32 },
    Crypto { op: CryptoOp, dst: Ptr, a: Ptr, b: Ptr, len: Val },
    Flag { v: Val },
    Time { d: u8, h: Val },
    Bhei { d: u8 },
    Bhsh { dst: Ptr, h: Val },
    Cb { dst: Ptr },
}

fn r(x: u8) -> u8 {
    x & 0x3f
}

fn ins(v: &mut Vec<u32>, i: Instruction) {
    v.push(i.into());
}

pub fn emit_val(v: &mut Vec<u32>, val: Val, t: u8) -> u8 {
    emit_val_l(v, val, t, None)
}

pub fn emit_val_l(v: &mut Vec<u32>, val: Val, t: u8, lay: Option<&Layout>) -> u8 {
    match val {
        Val::Imm(i) => {
            ins(v, op::movi(t, i & 0x3ffff));
            t
        }
        Val::Reg(x) => r(x),
        Val::Word(k) => {
            ins(v, op::lw(t, R_RAW, (k & 7) as u16));
            t
        }
        Val::Max => {
            ins(v, op::not(t, RegId::ZERO));
            t
        }
        Val::VarOut(k) => {
            let (start, n) = lay.map(|l| (l.var_out_start as u32, l.n_var_out.max(1) as u32)).unwrap_or((0, 1));
            ins(v, op::movi(t, start + (k as u32 % n)));
            t
        }
    }
}

pub fn emit_ptr(v: &mut Vec<u32>, p: Ptr, t: u8, lay: &Layout) -> u8 {
    let addoff = |v: &mut Vec<u32>, base: u8, off: i16, t: u8| {
        if off >= 0 {
            ins(v, op::addi(t, base, (off as u16) & 0xfff));
        } else {
            ins(v, op::subi(t, base, (off.unsigned_abs()) & 0xfff));
        }
    };
    match p.base {
        Base::HeapA => addoff(v, R_HA, p.off, t),
        Base::HeapB => addoff(v, R_HB, p.off, t),
        Base::Stack => addoff(v, R_ST, p.off, t),
        Base::Data => addoff(v, R_DATA, p.off, t),
        Base::Raw => addoff(v, R_RAW, p.off, t),
        Base::Code => addoff(v, RegId::IS.to_u8(), p.off, t),
        Base::Zero => ins(v, op::movi(t, p.off.max(0) as u32)),
        Base::Top => {
            ins(v, op::movi(t, 1));
            ins(v, op::slli(t, t, 26));
            addoff(v, t, p.off, t);
        }
        Base::Gap => addoff(v, RegId::SP.to_u8(), p.off.max(0), t),
        Base::Fp => addoff(v, RegId::FP.to_u8(), p.off.max(0), t),
        Base::Sp => addoff(v, RegId::SP.to_u8(), p.off, t),
        Base::Ssp => addoff(v, RegId::SSP.to_u8(), p.off, t),
        Base::Hp => addoff(v, RegId::HP.to_u8(), p.off, t),
        Base::Bal => ins(v, op::movi(t, (lay.balances_offset as i64 + p.off.max(0) as i64) as u32 & 0x3ffff)),
        Base::Reg(x) => addoff(v, r(x), p.off, t),
    }
    t
}

fn table_ptr(v: &mut Vec<u32>, base: u8, idx: u8, n: u8, stride: u16, t: u8) -> u8 {
    table_ptr_real(v, base, idx, n, n, stride, t)
}

/// `idx < 4` (the tame range) selects among the first `n_real` entries; larger indices select
/// among all `n` entries and one past the table (still inside script data) on purpose.
fn table_ptr_real(v: &mut Vec<u32>, base: u8, idx: u8, n: u8, n_real: u8, stride: u16, t: u8) -> u8 {
    let i = if idx < 4 && n_real > 0 { idx % n_real } else if n == 0 { 0 } else { idx.wrapping_sub(4) % (n + 1) } as u16;
    ins(v, op::addi(t, base, (i * stride) & 0xfff));
    t
}

/// number of instructions of the prelude (fixed)
pub const PRELUDE_LEN: usize = 22;

pub fn prelude(lay: &Layout) -> Vec<u32> {
    let mut v = vec![];
    ins(&mut v, op::gtf_args(R_DATA, RegId::ZERO, GTFArgs::ScriptData));
    ins(&mut v, op::addi(R_CIDS, R_DATA, lay.off_cids));
    ins(&mut v, op::addi(R_ASSETS, R_DATA, lay.off_assets));
    ins(&mut v, op::addi(R_CALLS, R_DATA, lay.off_calls));
    ins(&mut v, op::addi(R_KEYS, R_DATA, lay.off_keys));
    ins(&mut v, op::addi(R_ADDRS, R_DATA, lay.off_addrs));
    ins(&mut v, op::addi(R_BLOBS, R_DATA, lay.off_blobs));
    ins(&mut v, op::addi(R_RAW, R_DATA, lay.off_raw));
    ins(&mut v, op::movi(T0, HA_LEN));
    ins(&mut v, op::aloc(T0));
    ins(&mut v, op::move_(R_HA, RegId::HP));
    ins(&mut v, op::movi(T0, HB_LEN));
    ins(&mut v, op::aloc(T0));
    ins(&mut v, op::move_(R_HB, RegId::HP));
    ins(&mut v, op::move_(R_ST, RegId::SP));
    ins(&mut v, op::cfei(ST_LEN));
    ins(&mut v, op::movi(R_CNT, 3));
    // seed a few general registers with table words
    ins(&mut v, op::lw(0x20, R_RAW, 0));
    ins(&mut v, op::lw(0x21, R_RAW, 1));
    ins(&mut v, op::lw(0x22, R_RAW, 2));
    ins(&mut v, op::movi(0x23, 32));
    ins(&mut v, op::movi(0x24, 1));
    debug_assert_eq!(v.len(), PRELUDE_LEN);
    v
}

fn raw3(opb: u8, a: u8, b: u8, c: u8) -> u32 {
    ((opb as u32) << 24) | ((r(a) as u32) << 18) | ((r(b) as u32) << 12) | ((r(c) as u32) << 6)
}
fn raw4(opb: u8, a: u8, b: u8, c: u8, d: u8) -> u32 {
    raw3(opb, a, b, c) | (r(d) as u32)
}
fn rawi12(opb: u8, a: u8, b: u8, imm: u16) -> u32 {
    ((opb as u32) << 24) | ((r(a) as u32) << 18) | ((r(b) as u32) << 12) | (imm as u32 & 0xfff)
}

/// emit one template at instruction index `at` (index in the final program, prelude included)
pub fn emit(t: &Tpl, at: usize, lay: &Layout) -> Vec<u32> {
    let mut v = vec![];
    match t.clone() {
        Tpl::Raw(w) => v.push(w),
        Tpl::Op3 { op, d, a, b } => v.push(raw3(op, d, a, b)),
        Tpl::OpI { op, d, a, imm } => v.push(rawi12(op, d, a, imm)),
        Tpl::Not { d, a } => ins(&mut v, op::not(r(d), r(a))),
        Tpl::Move { d, a } => ins(&mut v, op::move_(r(d), r(a))),
        Tpl::Movi { d, imm } => ins(&mut v, op::movi(r(d), imm & 0x3ffff)),
        Tpl::LoadWord { d, k } => ins(&mut v, op::lw(r(d), R_RAW, (k & 7) as u16)),
        Tpl::Mldv { d, a, b, c } => ins(&mut v, op::mldv(r(d), r(a), r(b), r(c))),
        Tpl::Niop { d, a, b, imm } => v.push(raw3(0x23, d, a, b) | (imm as u32 & 0x3f)),
        Tpl::Wide { op, d, a, b, c, imm } => {
            let rd = emit_ptr(&mut v, d, T0, lay);
            let ra = emit_ptr(&mut v, a, T1, lay);
            let rb = emit_ptr(&mut v, b, T2, lay);
            if op >= 0xa8 {
                let rc = emit_ptr(&mut v, c, T3, lay);
                v.push(raw4(op, rd, ra, rb, rc));
            } else {
                v.push(raw3(op, rd, ra, rb) | (imm as u32 & 0x3f));
            }
        }
        Tpl::Mem { op: m, d, p, q, len, imm } => {
            let imm = imm & 0xfff;
            match m {
                MemOp::Lb => { let rp = emit_ptr(&mut v, p, T0, lay); ins(&mut v, op::lb(r(d), rp, imm)); }
                MemOp::Lw => { let rp = emit_ptr(&mut v, p, T0, lay); ins(&mut v, op::lw(r(d), rp, imm)); }
                MemOp::Lqw => { let rp = emit_ptr(&mut v, p, T0, lay); ins(&mut v, op::lqw(r(d), rp, imm)); }
                MemOp::Lhw => { let rp = emit_ptr(&mut v, p, T0, lay); ins(&mut v, op::lhw(r(d), rp, imm)); }
                MemOp::Sb => { let rp = emit_ptr(&mut v, p, T0, lay); ins(&mut v, op::sb(rp, r(d), imm)); }
                MemOp::Sw => { let rp = emit_ptr(&mut v, p, T0, lay); ins(&mut v, op::sw(rp, r(d), imm)); }
                MemOp::Sqw => { let rp = emit_ptr(&mut v, p, T0, lay); ins(&mut v, op::sqw(rp, r(d), imm)); }
                MemOp::Shw => { let rp = emit_ptr(&mut v, p, T0, lay); ins(&mut v, op::shw(rp, r(d), imm)); }
                MemOp::Mcl => { let rp = emit_ptr(&mut v, p, T0, lay); let rl = emit_val(&mut v, len, T2); ins(&mut v, op::mcl(rp, rl)); }
                MemOp::Mcli => { let rp = emit_ptr(&mut v, p, T0, lay); let n = match len { Val::Imm(i) => i, _ => 64 }; ins(&mut v, op::mcli(rp, n & 0x3ffff)); }
                MemOp::Mcp => { let rp = emit_ptr(&mut v, p, T0, lay); let rq = emit_ptr(&mut v, q, T1, lay); let rl = emit_val(&mut v, len, T2); ins(&mut v, op::mcp(rp, rq, rl)); }
                MemOp::Mcpi => { let rp = emit_ptr(&mut v, p, T0, lay); let rq = emit_ptr(&mut v, q, T1, lay); ins(&mut v, op::mcpi(rp, rq, imm)); }
                MemOp::Meq => { let rp = emit_ptr(&mut v, p, T0, lay); let rq = emit_ptr(&mut v, q, T1, lay); let rl = emit_val(&mut v, len, T2); ins(&mut v, op::meq(r(d), rp, rq, rl)); }
            }
        }
        Tpl::Stack { op: s, n, r: rv } => match s {
            StackOp::Cfei => ins(&mut v, op::cfei(n & 0xffffff)),
            StackOp::Cfsi => ins(&mut v, op::cfsi(n & 0xffffff)),
            StackOp::Cfe => { let x = emit_val(&mut v, rv, T0); ins(&mut v, op::cfe(x)); }
            StackOp::Cfs => { let x = emit_val(&mut v, rv, T0); ins(&mut v, op::cfs(x)); }
            StackOp::Pshl => ins(&mut v, op::pshl(n & 0xffffff)),
            StackOp::Pshh => ins(&mut v, op::pshh(n & 0xffffff)),
            StackOp::Popl => ins(&mut v, op::popl(n & 0xffffff)),
            StackOp::Poph => ins(&mut v, op::poph(n & 0xffffff)),
        },
        Tpl::Aloc { len } => { let x = emit_val(&mut v, len, T0); ins(&mut v, op::aloc(x)); }
        Tpl::SetCnt { n } => ins(&mut v, op::movi(R_CNT, n as u32)),
        Tpl::Jump { kind, delta, a, b, guarded } => {
            let backward = matches!(kind, JumpKind::Jmpb | JumpKind::Jnzb | JumpKind::Jneb) || delta < 0;
            let two = matches!(kind, JumpKind::Jmp | JumpKind::Jne); // these expand to movi + jump
            let pre = if guarded && backward { 3usize } else { 0 };
            let here = at + pre + if two { 1 } else { 0 }; // index of the jump instruction itself
            let mut abs = (here as i64 + delta as i64).max(0) as u32;
            if guarded {
                // never jump back into the prelude (it would re-initialise the loop counter)
                abs = abs.max(PRELUDE_LEN as u32);
            }
            let d = match kind {
                JumpKind::Jmpb | JumpKind::Jnzb | JumpKind::Jneb => {
                    let want = delta.unsigned_abs() as u32;
                    if guarded { want.min((here as u32).saturating_sub(PRELUDE_LEN as u32)) } else { want }
                }
                _ => delta.unsigned_abs() as u32,
            };
            let mut j = vec![];
            match kind {
                JumpKind::Ji => ins(&mut j, op::ji(abs & 0xffffff)),
                JumpKind::Jnei => ins(&mut j, op::jnei(r(a), r(b), (abs & 0xfff) as u16)),
                JumpKind::Jnzi => ins(&mut j, op::jnzi(r(a), abs & 0x3ffff)),
                // JMP/JNE take an absolute *instruction index* relative to $is in a register
                JumpKind::Jmp => { ins(&mut j, op::movi(T1, abs & 0x3ffff)); j.push(raw3(0x4a, T1, 0, 0)); }
                JumpKind::Jne => { ins(&mut j, op::movi(T1, abs & 0x3ffff)); ins(&mut j, op::jne(T1, r(a), r(b))); }
                JumpKind::Jmpf => ins(&mut j, op::jmpf(RegId::ZERO, d)),
                // backward relative: target = here - d - 1 ... the VM subtracts (d + 1) instructions
                JumpKind::Jmpb => ins(&mut j, op::jmpb(RegId::ZERO, d.saturating_sub(1))),
                JumpKind::Jnzf => ins(&mut j, op::jnzf(r(a), RegId::ZERO, d as u16)),
                JumpKind::Jnzb => ins(&mut j, op::jnzb(r(a), RegId::ZERO, d.saturating_sub(1) as u16 & 0xfff)),
                JumpKind::Jnef => ins(&mut j, op::jnef(r(a), r(b), RegId::ZERO, (d & 0x3f) as u8)),
                JumpKind::Jneb => ins(&mut j, op::jneb(r(a), r(b), RegId::ZERO, (d.saturating_sub(1) & 0x3f) as u8)),
                JumpKind::Jal => ins(&mut j, op::jal(r(a), RegId::PC, (d.max(1) & 0xfff) as u16)),
            }
            if pre > 0 {
                // if R_CNT == 0 skip the decrement and the jump; else decrement and jump
                ins(&mut v, op::eq(T0, R_CNT, RegId::ZERO));
                ins(&mut v, op::jnzf(T0, RegId::ZERO, j.len() as u16 + 1)); // pc += (imm + 1) instructions
                ins(&mut v, op::subi(R_CNT, R_CNT, 1));
            }
            v.extend(j);
        }
        Tpl::Call { call, coins, asset, gas } => {
            // candidate Call structs: all, or (DAG worlds, inside contract i) those targeting j > i
            let n = lay.n_calls.max(1);
            let cands: Vec<u8> = match (lay.dag, lay.self_idx) {
                (true, Some(me)) => (0..n).filter(|k| lay.call_targets.get(*k as usize).map(|t| *t > me && *t < lay.n_real_cids).unwrap_or(false)).collect(),
                _ => (0..n).collect(),
            };
            if cands.is_empty() {
                ins(&mut v, op::noop());
            } else {
                let k = cands[(call as usize) % cands.len()] as u16;
                ins(&mut v, op::addi(T0, R_CALLS, (k * 48) & 0xfff));
                let rc = emit_val(&mut v, coins, T1);
                table_ptr(&mut v, R_ASSETS, asset, lay.n_assets.saturating_sub(1), 32, T2);
                let rg = emit_val(&mut v, gas, T3);
                ins(&mut v, op::call(T0, rc, T2, rg));
            }
        }
        Tpl::Ret { v: x } => { let a = emit_val(&mut v, x, T0); ins(&mut v, op::ret(a)); }
        Tpl::Retd { p, len } => { let a = emit_ptr(&mut v, p, T0, lay); let l = emit_val(&mut v, len, T1); ins(&mut v, op::retd(a, l)); }
        Tpl::Rvrt { v: x } => { let a = emit_val(&mut v, x, T0); ins(&mut v, op::rvrt(a)); }
        Tpl::Tr { cid, amount, asset } => {
            table_ptr_real(&mut v, R_CIDS, cid, lay.n_cids, lay.n_real_cids, 32, T0);
            let ra = emit_val(&mut v, amount, T1);
            table_ptr(&mut v, R_ASSETS, asset, lay.n_assets, 32, T2);
            ins(&mut v, op::tr(T0, ra, T2));
        }
        Tpl::Tro { addr, out, amount, asset } => {
            table_ptr(&mut v, R_ADDRS, addr, lay.n_addrs, 32, T0);
            let ro = emit_val_l(&mut v, out, T1, Some(lay));
            let ra = emit_val(&mut v, amount, T3);
            table_ptr(&mut v, R_ASSETS, asset, lay.n_assets, 32, T2);
            ins(&mut v, op::tro(T0, ro, ra, T2));
        }
        Tpl::Mint { amount, sub } => { let ra = emit_val(&mut v, amount, T1); table_ptr(&mut v, R_KEYS, sub, lay.n_keys, 32, T0); ins(&mut v, op::mint(ra, T0)); }
        Tpl::Burn { amount, sub } => { let ra = emit_val(&mut v, amount, T1); table_ptr(&mut v, R_KEYS, sub, lay.n_keys, 32, T0); ins(&mut v, op::burn(ra, T0)); }
        Tpl::Smo { addr, p, len, coins } => {
            table_ptr(&mut v, R_ADDRS, addr, lay.n_addrs, 32, T0);
            let rp = emit_ptr(&mut v, p, T1, lay);
            let rl = emit_val(&mut v, len, T2);
            let rc = emit_val(&mut v, coins, T3);
            ins(&mut v, op::smo(T0, rp, rl, rc));
        }
        Tpl::Bal { d, asset, cid } => {
            table_ptr(&mut v, R_ASSETS, asset, lay.n_assets, 32, T0);
            table_ptr_real(&mut v, R_CIDS, cid, lay.n_cids, lay.n_real_cids, 32, T1);
            ins(&mut v, op::bal(r(d), T0, T1));
        }
        Tpl::Log { a, b, c, d } => ins(&mut v, op::log(r(a), r(b), r(c), r(d))),
        Tpl::Logd { a, b, p, len } => { let rp = emit_ptr(&mut v, p, T0, lay); let rl = emit_val(&mut v, len, T1); ins(&mut v, op::logd(r(a), r(b), rp, rl)); }
        Tpl::Storage { op: s, key, key_ptr, p, a, b, imm } => {
            let rk = match key_ptr {
                Some(kp) => emit_ptr(&mut v, kp, T0, lay),
                None => table_ptr(&mut v, R_KEYS, key, lay.n_keys.saturating_sub(1), 32, T0),
            };
            let st = 0x2e; // status register
            match s {
                StOp::Srw => ins(&mut v, op::srw(0x2f, st, rk, (imm & 0x3f) as u8)),
                StOp::Srwq => { let rp = emit_ptr(&mut v, p, T1, lay); let rl = emit_val(&mut v, a, T2); ins(&mut v, op::srwq(rp, st, rk, rl)); }
                StOp::Sww => { let rv = emit_val(&mut v, a, T1); ins(&mut v, op::sww(rk, st, rv)); }
                StOp::Swwq => { let rp = emit_ptr(&mut v, p, T1, lay); let rl = emit_val(&mut v, a, T2); ins(&mut v, op::swwq(rk, st, rp, rl)); }
                StOp::Scwq => { let rl = emit_val(&mut v, a, T2); ins(&mut v, op::scwq(rk, st, rl)); }
                StOp::Sclr => { let rl = emit_val(&mut v, a, T2); v.push(raw3(0xc0, rk, rl, 0)); }
                StOp::Srdd => { let rp = emit_ptr(&mut v, p, T1, lay); let ro = emit_val(&mut v, a, T2); let rl = emit_val(&mut v, b, T3); v.push(raw4(0xc1, rp, rk, ro, rl)); }
                StOp::Srdi => { let rp = emit_ptr(&mut v, p, T1, lay); let ro = emit_val(&mut v, a, T2); v.push(raw3(0xc2, rp, rk, ro) | (imm as u32 & 0x3f)); }
                StOp::Swrd => { let rp = emit_ptr(&mut v, p, T1, lay); let rl = emit_val(&mut v, a, T2); v.push(raw3(0xc3, rk, rp, rl)); }
                StOp::Swri => { let rp = emit_ptr(&mut v, p, T1, lay); v.push(rawi12(0xc4, rk, rp, imm)); }
                StOp::Supd => { let rp = emit_ptr(&mut v, p, T1, lay); let ro = emit_val(&mut v, a, T2); let rl = emit_val(&mut v, b, T3); v.push(raw4(0xc5, rk, rp, ro, rl)); }
                StOp::Supi => { let rp = emit_ptr(&mut v, p, T1, lay); let ro = emit_val(&mut v, a, T2); v.push(raw3(0xc6, rk, rp, ro) | (imm as u32 & 0x3f)); }
                StOp::Spld => v.push(raw3(0xc7, 0x2f, rk, 0)),
            }
        }
        Tpl::PushPop { hi, mask } => {
            let m = mask & 0xffffff;
            if hi { ins(&mut v, op::pshh(m)); ins(&mut v, op::poph(m)); } else { ins(&mut v, op::pshl(m)); ins(&mut v, op::popl(m)); }
        }
        Tpl::Code { op: c, id, dst, off, len, reset } => match c {
            CodeOp::Ldc0 | CodeOp::Ldc1 | CodeOp::Ldc2 | CodeOp::LdcBad => {
                if reset {
                    // LDC needs $sp == $ssp: give the frame back first
                    ins(&mut v, op::sub(T3, RegId::SP, RegId::SSP));
                    ins(&mut v, op::cfs(T3));
                }
                let mode = match c { CodeOp::Ldc0 => 0, CodeOp::Ldc1 => 1, CodeOp::Ldc2 => 2, _ => 3 };
                let rs = match c {
                    CodeOp::Ldc1 => table_ptr_real(&mut v, R_BLOBS, id, lay.n_blobs, lay.n_real_blobs, 32, T0),
                    CodeOp::Ldc2 => emit_ptr(&mut v, dst, T0, lay),
                    _ => table_ptr_real(&mut v, R_CIDS, id, lay.n_cids, lay.n_real_cids, 32, T0),
                };
                let ro = emit_val(&mut v, off, T1);
                let rl = emit_val(&mut v, len, T2);
                ins(&mut v, op::ldc(rs, ro, rl, mode));
            }
            CodeOp::Ccp => { let rd = emit_ptr(&mut v, dst, T0, lay); table_ptr_real(&mut v, R_CIDS, id, lay.n_cids, lay.n_real_cids, 32, T1); let ro = emit_val(&mut v, off, T2); let rl = emit_val(&mut v, len, T3); ins(&mut v, op::ccp(rd, T1, ro, rl)); }
            CodeOp::Csiz => { table_ptr_real(&mut v, R_CIDS, id, lay.n_cids, lay.n_real_cids, 32, T1); ins(&mut v, op::csiz(0x2d, T1)); }
            CodeOp::Croo => { let rd = emit_ptr(&mut v, dst, T0, lay); table_ptr_real(&mut v, R_CIDS, id, lay.n_cids, lay.n_real_cids, 32, T1); ins(&mut v, op::croo(rd, T1)); }
            CodeOp::Bsiz => { table_ptr_real(&mut v, R_BLOBS, id, lay.n_blobs, lay.n_real_blobs, 32, T1); ins(&mut v, op::bsiz(0x2d, T1)); }
            CodeOp::Bldd => { let rd = emit_ptr(&mut v, dst, T0, lay); table_ptr_real(&mut v, R_BLOBS, id, lay.n_blobs, lay.n_real_blobs, 32, T1); let ro = emit_val(&mut v, off, T2); let rl = emit_val(&mut v, len, T3); ins(&mut v, op::bldd(rd, T1, ro, rl)); }
        },
        Tpl::Gtf { d, arg, sel } => { let ra = emit_val(&mut v, arg, T0); ins(&mut v, op::gtf(r(d), ra, sel & 0xfff)); }
        Tpl::Gm { d, sel } => ins(&mut v, op::gm(r(d), sel & 0x3ffff)),
        Tpl::Crypto { op: c, dst, a, b, len } => {
            let rd = emit_ptr(&mut v, dst, T0, lay);
            let ra = emit_ptr(&mut v, a, T1, lay);
            match c {
                CryptoOp::S256 => { let rl = emit_val(&mut v, len, T2); ins(&mut v, op::s256(rd, ra, rl)); }
                CryptoOp::K256 => { let rl = emit_val(&mut v, len, T2); ins(&mut v, op::k256(rd, ra, rl)); }
                CryptoOp::Eck1 => { let rb = emit_ptr(&mut v, b, T2, lay); ins(&mut v, op::eck1(rd, ra, rb)); }
                CryptoOp::Ecr1 => { let rb = emit_ptr(&mut v, b, T2, lay); ins(&mut v, op::ecr1(rd, ra, rb)); }
                CryptoOp::Ed19 => { let rb = emit_ptr(&mut v, b, T2, lay); let rl = emit_val(&mut v, len, T3); ins(&mut v, op::ed19(rd, ra, rb, rl)); }
            }
        }
        Tpl::Flag { v: x } => { let a = emit_val(&mut v, x, T0); ins(&mut v, op::flag(a)); }
        Tpl::Time { d, h } => { let a = emit_val(&mut v, h, T0); ins(&mut v, op::time(r(d), a)); }
        Tpl::Bhei { d } => ins(&mut v, op::bhei(r(d))),
        Tpl::Bhsh { dst, h } => { let rd = emit_ptr(&mut v, dst, T0, lay); let a = emit_val(&mut v, h, T1); ins(&mut v, op::bhsh(rd, a)); }
        Tpl::Cb { dst } => { let rd = emit_ptr(&mut v, dst, T0, lay); ins(&mut v, op::cb(rd)); }
    }
    v
}

/// assemble `prelude ++ body` into instruction words
pub fn assemble(body: &[Tpl], lay: &Layout) -> Vec<u32> {
    let mut v = prelude(lay);
    for t in body {
        let at = v.len();
        v.extend(emit(t, at, lay));
    }
    v
}

pub fn to_bytes(words: &[u32]) -> Vec<u8> {
    words.iter().flat_map(|w| w.to_be_bytes()).collect()
}

// ------------------------------------------------------------------ strategies
//
// Every group has a *tame* flavour (operands aimed so that the instruction normally succeeds)
// and a *wild* flavour (anything goes).  A body draws wild templates with a small probability,
// so generated programs get deep instead of dying at the first instruction.

pub fn greg(wild: bool) -> BoxedStrategy<u8> {
    if wild {
        prop_oneof![
            6 => 0x20u8..0x30,
            3 => prop::sample::select(vec![R_DATA, R_CIDS, R_ASSETS, R_HA, R_HB, R_ST, R_CNT, R_RAW]),
            3 => prop::sample::select(vec![0u8, 1, 2, 3, 4, 5, 6, 7, 8, 9, 10, 11, 12]),
            2 => 0u8..64,
        ]
        .boxed()
    } else {
        prop_oneof![10 => 0x20u8..0x30, 1 => prop::sample::select(vec![0u8, 1, R_CNT])].boxed()
    }
}
/// destination register
pub fn dreg(wild: bool) -> BoxedStrategy<u8> {
    if wild {
        prop_oneof![4 => 0x20u8..0x30, 2 => 0u8..16, 2 => 0x10u8..0x40].boxed()
    } else {
        (0x20u8..0x30).boxed()
    }
}

pub fn val(wild: bool) -> BoxedStrategy<Val> {
    if wild {
        prop_oneof![
            5 => prop_oneof![0u32..4, 0u32..70, Just(255u32), Just(256), Just(257), 0u32..0x40000].prop_map(Val::Imm),
            3 => greg(true).prop_map(Val::Reg),
            2 => (0u8..8).prop_map(Val::Word),
            1 => Just(Val::Max),
        ]
        .boxed()
    } else {
        prop_oneof![
            8 => prop_oneof![0u32..4, 0u32..70, Just(32u32), Just(64)].prop_map(Val::Imm),
            1 => (0x23u8..0x25).prop_map(Val::Reg),
        ]
        .boxed()
    }
}

pub fn ptr() -> impl Strategy<Value = Ptr> {
    let off = prop_oneof![4 => 0i16..64, 2 => prop::sample::select(vec![0i16, 8, 32, 248, 255, 256, 257, 504, 511, 512, 513]), 1 => -40i16..600];
    (
        prop_oneof![
            6 => Just(Base::HeapA), 4 => Just(Base::HeapB), 6 => Just(Base::Stack), 2 => Just(Base::Data), 2 => Just(Base::Raw),
            1 => Just(Base::Code), 1 => Just(Base::Zero), 1 => Just(Base::Top), 1 => Just(Base::Gap), 1 => Just(Base::Fp),
            1 => Just(Base::Sp), 1 => Just(Base::Ssp), 1 => Just(Base::Hp), 1 => Just(Base::Bal), 1 => greg(true).prop_map(Base::Reg),
        ],
        off,
    )
        .prop_map(|(base, off)| Ptr { base, off })
}
/// pointer that is readable and owned (8-aligned, ≥ 128 bytes of room behind it)
pub fn good_ptr() -> impl Strategy<Value = Ptr> {
    (prop_oneof![Just(Base::HeapA), Just(Base::HeapB), Just(Base::Stack)], 0i16..128).prop_map(|(base, off)| Ptr { base, off: off & !7 })
}
fn good_ptr_in(base: Base) -> impl Strategy<Value = Ptr> {
    (0i16..128).prop_map(move |off| Ptr { base, off: off & !7 })
}
pub fn wptr(wild: bool) -> BoxedStrategy<Ptr> {
    if wild { prop_oneof![1 => good_ptr(), 2 => ptr()].boxed() } else { good_ptr().boxed() }
}
pub fn rptr(wild: bool) -> BoxedStrategy<Ptr> {
    if wild {
        prop_oneof![1 => good_ptr(), 2 => ptr()].boxed()
    } else {
        prop_oneof![3 => good_ptr(), 2 => (prop_oneof![Just(Base::Data), Just(Base::Raw)], 0i16..64).prop_map(|(base, off)| Ptr { base, off })].boxed()
    }
}
fn idx(wild: bool) -> BoxedStrategy<u8> {
    if wild { (0u8..8).boxed() } else { prop_oneof![6 => Just(0u8), 3 => Just(1u8)].boxed() }
}

const ALU3: &[u8] = &[0x10, 0x11, 0x12, 0x13, 0x14, 0x15, 0x16, 0x17, 0x18, 0x19, 0x1b, 0x1d, 0x1e, 0x1f, 0x20, 0x21];
const ALU3_TAME: &[u8] = &[0x10, 0x11, 0x13, 0x15, 0x16, 0x1b, 0x1d, 0x1e, 0x1f, 0x21];
const ALUI: &[u8] = &[0x50, 0x51, 0x52, 0x53, 0x54, 0x55, 0x56, 0x57, 0x58, 0x59, 0x5a];
const ALUI_TAME: &[u8] = &[0x50, 0x51, 0x55, 0x56, 0x57, 0x58, 0x5a];

pub fn alu_tpl(wild: bool) -> BoxedStrategy<Tpl> {
    let a3 = if wild { ALU3 } else { ALU3_TAME };
    let ai = if wild { ALUI } else { ALUI_TAME };
    let immv = if wild { prop_oneof![0u16..70, 0u16..4096].boxed() } else { (1u16..40).boxed() };
    let nimm = if wild { (0u8..64).boxed() } else { (0u8..6, 0u8..3).prop_map(|(o, w)| o | (w << 4)).boxed() };
    let wimm = if wild { (0u8..64).boxed() } else { (0u8..6).boxed() };
    prop_oneof![
        4 => (prop::sample::select(a3.to_vec()), dreg(wild), greg(wild), greg(wild)).prop_map(|(op, d, a, b)| Tpl::Op3 { op, d, a, b }),
        4 => (prop::sample::select(ai.to_vec()), dreg(wild), greg(wild), immv).prop_map(|(op, d, a, imm)| Tpl::OpI { op, d, a, imm }),
        1 => (dreg(wild), greg(wild)).prop_map(|(d, a)| Tpl::Not { d, a }),
        1 => (dreg(wild), greg(wild)).prop_map(|(d, a)| Tpl::Move { d, a }),
        2 => (dreg(wild), prop_oneof![0u32..300, 0u32..0x40000]).prop_map(|(d, imm)| Tpl::Movi { d, imm }),
        2 => (dreg(wild), 0u8..8).prop_map(|(d, k)| Tpl::LoadWord { d, k }),
        1 => (dreg(wild), greg(wild), greg(wild), greg(wild)).prop_map(|(d, a, b, c)| Tpl::Mldv { d, a, b, c }),
        1 => (dreg(wild), greg(wild), greg(wild), nimm).prop_map(|(d, a, b, imm)| Tpl::Niop { d, a, b, imm }),
        1 => (0xa0u8..=0xad, wptr(wild), rptr(wild), rptr(wild), rptr(wild), wimm).prop_map(|(op, d, a, b, c, imm)| Tpl::Wide { op, d, a, b, c, imm }),
        1 => if wild { val(true).prop_map(|v| Tpl::Flag { v }).boxed() } else { (0u32..4).prop_map(|v| Tpl::Flag { v: Val::Imm(v) }).boxed() },
    ]
    .boxed()
}

pub fn mem_tpl(wild: bool) -> BoxedStrategy<Tpl> {
    let memop = prop::sample::select(vec![
        MemOp::Lb, MemOp::Lw, MemOp::Sb, MemOp::Sw, MemOp::Lqw, MemOp::Lhw, MemOp::Sqw, MemOp::Shw, MemOp::Mcl, MemOp::Mcli, MemOp::Mcp, MemOp::Mcpi, MemOp::Meq,
    ]);
    if wild {
        prop_oneof![
            8 => (memop, greg(true), prop_oneof![1 => good_ptr(), 2 => ptr()], prop_oneof![1 => good_ptr(), 2 => ptr()], val(true), prop_oneof![0u16..8, 0u16..70, 0u16..4096])
                .prop_map(|(op, d, p, q, len, imm)| Tpl::Mem { op, d, p, q, len, imm }),
            3 => (prop::sample::select(vec![StackOp::Cfei, StackOp::Cfsi, StackOp::Cfe, StackOp::Cfs, StackOp::Pshl, StackOp::Pshh, StackOp::Popl, StackOp::Poph]),
                  prop_oneof![0u32..16, 0u32..600, Just(ST_LEN), 0u32..0x1000000], val(true))
                .prop_map(|(op, n, r)| Tpl::Stack { op, n, r }),
            2 => val(true).prop_map(|len| Tpl::Aloc { len }),
        ]
        .boxed()
    } else {
        prop_oneof![
            // destination in heap A, source elsewhere: never overlapping
            8 => (memop, prop_oneof![3 => dreg(false), 1 => greg(false)], good_ptr_in(Base::HeapA), prop_oneof![good_ptr_in(Base::HeapB), good_ptr_in(Base::Stack), Just(Ptr { base: Base::Raw, off: 0 })],
                  (0u32..=64).prop_map(Val::Imm), 0u16..8)
                .prop_map(|(op, d, p, q, len, imm)| match op {
                    // loads write register d: keep it writable
                    MemOp::Lb | MemOp::Lw | MemOp::Lqw | MemOp::Lhw | MemOp::Meq => Tpl::Mem { op, d: 0x20 | (d & 0xf), p, q, len, imm },
                    _ => Tpl::Mem { op, d, p, q, len, imm },
                }),
            2 => (good_ptr_in(Base::Stack), good_ptr_in(Base::HeapB), (0u32..=64).prop_map(Val::Imm)).prop_map(|(p, q, len)| Tpl::Mem { op: MemOp::Mcp, d: 0x20, p, q, len, imm: 0 }),
            2 => (prop::bool::ANY, prop_oneof![Just(1u32), Just(0x30000), 1u32..0x1000000]).prop_map(|(hi, mask)| Tpl::PushPop { hi, mask }),
            1 => (0u32..64).prop_map(|n| Tpl::Stack { op: StackOp::Cfei, n: n * 8, r: Val::Imm(0) }),
            1 => (0u32..300).prop_map(|n| Tpl::Aloc { len: Val::Imm(n) }),
        ]
        .boxed()
    }
}

pub fn jump_tpl(wild: bool) -> BoxedStrategy<Tpl> {
    let kind = prop::sample::select(vec![
        JumpKind::Ji, JumpKind::Jnei, JumpKind::Jnzi, JumpKind::Jmp, JumpKind::Jne, JumpKind::Jmpf, JumpKind::Jmpb, JumpKind::Jnzf, JumpKind::Jnzb, JumpKind::Jnef, JumpKind::Jneb, JumpKind::Jal,
    ]);
    if wild {
        (kind, -12i8..12, greg(true), greg(true), prop::bool::weighted(0.5)).prop_map(|(kind, delta, a, b, guarded)| Tpl::Jump { kind, delta, a, b, guarded }).boxed()
    } else {
        prop_oneof![
            6 => (kind, prop_oneof![3 => 1i8..4, 2 => -10i8..0], greg(false), greg(false)).prop_map(|(kind, delta, a, b)| {
                // forward kinds go forward, backward kinds go backward
                let delta = match kind {
                    JumpKind::Jmpf | JumpKind::Jnzf | JumpKind::Jnef | JumpKind::Jal => delta.abs().clamp(1, 3),
                    JumpKind::Jmpb | JumpKind::Jnzb | JumpKind::Jneb => delta.abs().max(1),
                    _ => delta,
                };
                Tpl::Jump { kind, delta, a, b, guarded: true }
            }),
            1 => (1u8..6).prop_map(|n| Tpl::SetCnt { n }),
        ]
        .boxed()
    }
}

pub fn asset_tpl(wild: bool, contract: bool) -> BoxedStrategy<Tpl> {
    let amount = move || if wild { prop_oneof![2 => (0u32..50).prop_map(Val::Imm), 2 => val(true)].boxed() } else { (1u32..12).prop_map(Val::Imm).boxed() };
    let asset = move || if wild { (0u8..8).boxed() } else { prop_oneof![18 => Just(0u8), 1 => Just(1u8), 1 => Just(2u8)].boxed() };
    let cw = if contract { 4 } else if wild { 2 } else { 0 };
    let out = if wild { prop_oneof![(0u32..8).prop_map(Val::Imm), val(true)].boxed() } else { (0u8..3).prop_map(Val::VarOut).boxed() };
    let mut v: Vec<(u32, BoxedStrategy<Tpl>)> = vec![
        (4, (idx(wild), amount(), asset()).prop_map(|(cid, amount, asset)| Tpl::Tr { cid, amount, asset }).boxed()),
        (4, (0u8..3, out, amount(), asset()).prop_map(|(addr, out, amount, asset)| Tpl::Tro { addr, out, amount, asset }).boxed()),
        (2, (0u8..2, rptr(wild), if wild { val(true) } else { (0u32..40).prop_map(Val::Imm).boxed() }, amount()).prop_map(|(addr, p, len, coins)| Tpl::Smo { addr, p, len, coins }).boxed()),
        (3, (dreg(wild), asset(), idx(wild)).prop_map(|(d, asset, cid)| Tpl::Bal { d, asset, cid }).boxed()),
    ];
    if cw > 0 {
        let (mint_amt, burn_amt) = if wild { (amount(), amount()) } else { ((10u32..30).prop_map(Val::Imm).boxed(), (1u32..4).prop_map(Val::Imm).boxed()) };
        v.push((cw, (mint_amt, 0u8..2).prop_map(|(amount, sub)| Tpl::Mint { amount, sub }).boxed()));
        v.push((if wild { cw } else { 1 }, (burn_amt, 0u8..2).prop_map(|(amount, sub)| Tpl::Burn { amount, sub }).boxed()));
    }
    proptest::strategy::Union::new_weighted(v).boxed()
}

pub fn call_tpl(wild: bool) -> BoxedStrategy<Tpl> {
    if wild {
        (0u8..8, prop_oneof![3 => Just(Val::Imm(0)), 3 => (0u32..40).prop_map(Val::Imm), 2 => val(true)], 0u8..8,
         prop_oneof![2 => Just(Val::Reg(RegId::CGAS.to_u8())), 2 => Just(Val::Max), 2 => (0u32..3000).prop_map(Val::Imm), 1 => Just(Val::Imm(0)), 2 => val(true)])
            .prop_map(|(call, coins, asset, gas)| Tpl::Call { call, coins, asset, gas })
            .boxed()
    } else {
        (0u8..4, prop_oneof![5 => Just(Val::Imm(0)), 2 => (1u32..10).prop_map(Val::Imm)], Just(0u8),
         prop_oneof![5 => Just(Val::Reg(RegId::CGAS.to_u8())), 3 => Just(Val::Max), 1 => (500u32..6000).prop_map(Val::Imm)])
            .prop_map(|(call, coins, asset, gas)| Tpl::Call { call, coins, asset, gas })
            .boxed()
    }
}

pub fn end_tpl(wild: bool) -> BoxedStrategy<Tpl> {
    prop_oneof![
        5 => val(wild).prop_map(|v| Tpl::Ret { v }),
        3 => (rptr(wild), if wild { val(true) } else { (0u32..64).prop_map(Val::Imm).boxed() }).prop_map(|(p, len)| Tpl::Retd { p, len }),
        1 => val(wild).prop_map(|v| Tpl::Rvrt { v }),
    ]
    .boxed()
}

pub fn log_tpl(wild: bool) -> BoxedStrategy<Tpl> {
    prop_oneof![
        2 => (greg(wild), greg(wild), greg(wild), greg(wild)).prop_map(|(a, b, c, d)| Tpl::Log { a, b, c, d }),
        2 => (greg(wild), greg(wild), rptr(wild), if wild { val(true) } else { (0u32..64).prop_map(Val::Imm).boxed() }).prop_map(|(a, b, p, len)| Tpl::Logd { a, b, p, len }),
    ]
    .boxed()
}

pub fn storage_tpl(wild: bool) -> BoxedStrategy<Tpl> {
    let sop = prop::sample::select(vec![
        StOp::Srw, StOp::Srwq, StOp::Sww, StOp::Swwq, StOp::Scwq, StOp::Sclr, StOp::Srdd, StOp::Srdi, StOp::Swrd, StOp::Swri, StOp::Supd, StOp::Supi, StOp::Spld,
    ]);
    if wild {
        let cnt = || prop_oneof![4 => (0u32..4).prop_map(Val::Imm), 2 => (0u32..70).prop_map(Val::Imm), 2 => val(true)];
        (sop, 0u8..8, prop::option::weighted(0.3, ptr()), prop_oneof![1 => good_ptr(), 1 => ptr()], cnt(), prop_oneof![3 => cnt().boxed(), 1 => Just(Val::Max).boxed()], prop_oneof![0u16..8, 0u16..64, 0u16..4096])
            .prop_map(|(op, key, key_ptr, p, a, b, imm)| Tpl::Storage { op, key, key_ptr, p, a, b, imm })
            .boxed()
    } else {
        (sop, 0u8..5, good_ptr(), 0u32..3, 0u32..3, 0u16..40)
            .prop_map(|(op, key, p, x, y, imm)| {
                // a / b meaning depends on the op; keep them in range
                let (a, b, imm) = match op {
                    StOp::Srwq | StOp::Swwq | StOp::Scwq | StOp::Sclr => (Val::Imm(1 + x), Val::Imm(0), imm),
                    StOp::Sww => (Val::Imm(7 + x * 1000), Val::Imm(0), imm),
                    StOp::Srw => (Val::Imm(0), Val::Imm(0), imm % 4),
                    // dynamic reads: offset 0 (mostly), small length
                    StOp::Srdd | StOp::Srdi => (Val::Imm(if y == 2 { 1 } else { 0 }), Val::Imm(x * 8), imm % 9),
                    StOp::Swrd | StOp::Swri => (Val::Imm(imm as u32), Val::Imm(0), imm),
                    // updates: offset 0 or append (Max)
                    StOp::Supd | StOp::Supi => (if y == 2 { Val::Max } else { Val::Imm(0) }, Val::Imm(8 + x * 8), 1 + imm % 30),
                    StOp::Spld => (Val::Imm(0), Val::Imm(0), 0),
                };
                Tpl::Storage { op, key, key_ptr: None, p, a, b, imm }
            })
            .boxed()
    }
}

pub fn code_tpl(wild: bool) -> BoxedStrategy<Tpl> {
    let cop = prop::sample::select(vec![CodeOp::Ldc0, CodeOp::Ldc1, CodeOp::Ldc2, CodeOp::LdcBad, CodeOp::Ccp, CodeOp::Csiz, CodeOp::Croo, CodeOp::Bsiz, CodeOp::Bldd]);
    if wild {
        (cop, 0u8..8, prop_oneof![1 => good_ptr(), 1 => ptr()], val(true), val(true), prop::bool::ANY).prop_map(|(op, id, dst, off, len, reset)| Tpl::Code { op, id, dst, off, len, reset }).boxed()
    } else {
        let cop = prop::sample::select(vec![CodeOp::Ldc0, CodeOp::Ldc1, CodeOp::Ldc2, CodeOp::Ccp, CodeOp::Csiz, CodeOp::Croo, CodeOp::Bsiz, CodeOp::Bldd]);
        (cop, idx(false), good_ptr(), 0u32..24, 0u32..64).prop_map(|(op, id, dst, off, len)| Tpl::Code { op, id: if matches!(op, CodeOp::Ldc1 | CodeOp::Bsiz | CodeOp::Bldd) { 0 } else { id }, dst, off: Val::Imm(off), len: Val::Imm(len), reset: true }).boxed()
    }
}

const GTF_SEL: &[u16] = &[0x001, 0x002, 0x003, 0x005, 0x006, 0x007, 0x008, 0x009, 0x00a, 0x00b, 0x00c, 0x00d, 0x00e, 0x101, 0x200, 0x201, 0x202, 0x203, 0x204, 0x205, 0x206, 0x207, 0x208, 0x20b, 0x20c, 0x220, 0x240, 0x241, 0x242, 0x243, 0x245, 0x246, 0x249, 0x24a, 0x24b, 0x300, 0x301, 0x302, 0x303, 0x304, 0x305, 0x306, 0x400, 0x401, 0x500, 0x501, 0x502];
const GTF_SEL_TAME: &[u16] = &[0x001, 0x002, 0x003, 0x005, 0x006, 0x007, 0x008, 0x009, 0x00a, 0x00b, 0x00c, 0x00d, 0x200, 0x201, 0x202, 0x203, 0x204, 0x205, 0x206, 0x207, 0x300, 0x400, 0x401];

pub fn misc_tpl(wild: bool) -> BoxedStrategy<Tpl> {
    if wild {
        prop_oneof![
            3 => (dreg(true), prop_oneof![(0u32..4).prop_map(Val::Imm).boxed(), val(true)], prop_oneof![prop::sample::select(GTF_SEL.to_vec()), 0u16..4096]).prop_map(|(d, arg, sel)| Tpl::Gtf { d, arg, sel }),
            1 => (dreg(true), prop_oneof![1u32..8, 0u32..0x40000]).prop_map(|(d, sel)| Tpl::Gm { d, sel }),
            2 => (prop::sample::select(vec![CryptoOp::S256, CryptoOp::K256, CryptoOp::Eck1, CryptoOp::Ecr1, CryptoOp::Ed19]), wptr(true), rptr(true), rptr(true), val(true)).prop_map(|(op, dst, a, b, len)| Tpl::Crypto { op, dst, a, b, len }),
            1 => (dreg(true), val(true)).prop_map(|(d, h)| Tpl::Time { d, h }),
            1 => (wptr(true), val(true)).prop_map(|(dst, h)| Tpl::Bhsh { dst, h }),
            1 => wptr(true).prop_map(|dst| Tpl::Cb { dst }),
            2 => any::<u32>().prop_map(Tpl::Raw),
            2 => (any::<u8>(), any::<u32>()).prop_map(|(o, x)| Tpl::Raw(((o as u32) << 24) | (x & 0xffffff))),
        ]
        .boxed()
    } else {
        prop_oneof![
            3 => (dreg(false), prop::sample::select(GTF_SEL_TAME.to_vec())).prop_map(|(d, sel)| Tpl::Gtf { d, arg: Val::Imm(0), sel }),
            1 => (dreg(false), 4u32..8).prop_map(|(d, sel)| Tpl::Gm { d, sel }),
            2 => (prop::sample::select(vec![CryptoOp::S256, CryptoOp::K256, CryptoOp::Eck1, CryptoOp::Ecr1, CryptoOp::Ed19]), good_ptr_in(Base::HeapA), good_ptr_in(Base::HeapB), good_ptr_in(Base::Stack), (0u32..64).prop_map(Val::Imm)).prop_map(|(op, dst, a, b, len)| Tpl::Crypto { op, dst, a, b, len }),
            1 => dreg(false).prop_map(|d| Tpl::Time { d, h: Val::Imm(0) }),
            1 => dreg(false).prop_map(|d| Tpl::Bhei { d }),
            1 => good_ptr().prop_map(|dst| Tpl::Bhsh { dst, h: Val::Imm(0) }),
            1 => good_ptr().prop_map(|dst| Tpl::Cb { dst }),
        ]
        .boxed()
    }
}

/// weights of the template groups: alu, mem, jump, asset, call, end, log, storage, code, misc
#[derive(Debug, Clone, Copy)]
pub struct Weights(pub [u32; 10]);

pub const W_SCRIPT: Weights = Weights([6, 6, 3, 4, 6, 0, 2, 0, 3, 3]);
pub const W_CONTRACT: Weights = Weights([5, 5, 2, 5, 3, 1, 2, 8, 2, 2]);
pub const W_PREDICATE: Weights = Weights([8, 6, 3, 0, 0, 1, 0, 0, 0, 3]);

fn group(g: usize, wild: bool, contract: bool) -> BoxedStrategy<Tpl> {
    match g {
        0 => alu_tpl(wild),
        1 => mem_tpl(wild),
        2 => jump_tpl(wild),
        3 => asset_tpl(wild, contract),
        4 => call_tpl(wild),
        5 => end_tpl(wild),
        6 => log_tpl(wild),
        7 => storage_tpl(wild),
        8 => code_tpl(wild),
        _ => misc_tpl(wild),
    }
}

/// one template; `wild_pct` = probability (percent) of the wild flavour
pub fn tpl(w: Weights, contract: bool, wild_pct: u32) -> BoxedStrategy<Tpl> {
    let mut v: Vec<(u32, BoxedStrategy<Tpl>)> = vec![];
    for g in 0..10 {
        let wt = w.0[g];
        if wt > 0 {
            v.push((wt * (100 - wild_pct), group(g, false, contract)));
        }
        // wild flavours of every group stay reachable (storage in scripts, etc.)
        let ww = if wt > 0 { wt } else { 1 };
        if wild_pct > 0 {
            v.push((ww * wild_pct, group(g, true, contract)));
        }
    }
    proptest::strategy::Union::new_weighted(v).boxed()
}

/// a body: optional flag prelude, templates, then an explicit end (so most programs end by choice)
pub fn body(w: Weights, contract: bool, max: usize) -> impl Strategy<Value = Vec<Tpl>> {
    (prop_oneof![5 => Just(1u32), 3 => Just(3u32), 2 => Just(10u32)]).prop_flat_map(move |wild_pct| {
        (prop::option::weighted(0.5, 0u32..4), prop::collection::vec(tpl(w, contract, wild_pct), 0..=max), end_tpl(false)).prop_map(|(flag, mut b, e)| {
            if let Some(f) = flag {
                b.insert(0, Tpl::Flag { v: Val::Imm(f) });
            }
            b.push(e);
            b
        })
    })
}
