//! World builder: consensus parameters, pre-populated storage, a valid script transaction
//! whose script/contract code comes from G-PROG templates; plain runner and stepping monitor.

use super::prog::{self, Layout, Tpl};
use crate::gens::tx::{b32, hexbytes, HexBytes, B32};
use crate::gens::word;
use fuel_asm::RegId;
use fuel_crypto::SecretKey;
use fuel_storage::StorageWrite;
use fuel_tx::{
    ConsensusParameters, ContractIdExt, FeeParameters, GasCosts, Input, Output, Receipt, Script, TransactionBuilder, TxPointer, UtxoId,
};
use fuel_types::{Address, AssetId, BlobId, BlockHeight, Bytes32, ContractId, Nonce, SubAssetId};
use fuel_vm::checked_transaction::{Checked, IntoChecked};
use fuel_vm::interpreter::{Interpreter, InterpreterParams, MemoryInstance, NotSupportedEcal};
use fuel_vm::prelude::*;
use fuel_vm::state::{DebugEval, ProgramState};
use fuel_vm::storage::{BlobData, ContractsAssetsStorage, InterpreterStorage, MemoryStorage};
use fuel_vm::verification::Normal;
use proptest::prelude::*;
use serde::{Deserialize, Serialize};

#[derive(Debug, Clone, PartialEq, Eq, Hash, Serialize, Deserialize)]
pub enum Sched {
    Default,
    Unit,
    Random(u64),
}

#[derive(Debug, Clone, PartialEq, Eq, Hash, Serialize, Deserialize)]
pub struct ContractSpec {
    pub body: Vec<Tpl>,
    /// (asset index, amount)
    pub balances: Vec<(u8, u64)>,
    /// (key index, value)
    pub slots: Vec<(u8, HexBytes)>,
    pub listed: bool,
}

#[derive(Debug, Clone, PartialEq, Eq, Hash, Serialize, Deserialize)]
pub struct WorldSpec {
    pub sched: Sched,
    pub gas_price: u64,
    pub price_factor: u64,
    pub gas_per_byte: u64,
    pub tip: u64,
    pub gas_limit: u64,
    pub base_extra: u64,
    pub contracts: Vec<ContractSpec>,
    pub blobs: Vec<HexBytes>,
    /// non-base coin inputs (asset index 1..=2, amount)
    pub coins: Vec<(u8, u64)>,
    pub msg_coin: Option<u64>,
    pub msg_data: Option<(u64, HexBytes)>,
    /// asset indices that get a change output
    pub change: Vec<u8>,
    pub variables: u8,
    /// coin outputs (asset index, amount) — clipped to what the inputs provide
    pub coin_outs: Vec<(u8, u64)>,
    pub script: Vec<Tpl>,
    /// Call structs: (contract table index, a, b)
    pub calls: Vec<(u8, u64, u64)>,
    pub keys: Vec<B32>,
    pub words: [u64; 8],
    pub raw: HexBytes,
    pub height: u32,
    /// call graph restricted to a DAG (contract i calls only j > i)
    pub dag: bool,
    /// the chain's base asset id is not the all-zero id
    #[serde(default)]
    pub alt_base: bool,
}

pub const N_PLAIN_ASSETS: usize = 3;

pub fn plain_asset(i: usize) -> AssetId {
    if i == 0 {
        AssetId::zeroed()
    } else {
        AssetId::from([0xA0 + i as u8; 32])
    }
}
pub fn contract_id(i: usize) -> ContractId {
    let mut a = [0xC0 + i as u8; 32];
    a[0] = 0x0c;
    ContractId::from(a)
}
pub fn missing_contract() -> ContractId {
    ContractId::from([0xEE; 32])
}
pub fn address(i: usize) -> Address {
    Address::from([0xD0 + i as u8; 32])
}

/// small selectors pick an existing contract when there is one; larger ones anything (incl. the missing id)
fn call_target(ci: u8, n_real: usize, n_all: usize) -> usize {
    if ci < 4 && n_real > 0 { (ci as usize) % n_real } else { (ci as usize) % n_all }
}

pub struct Built {
    pub params: ConsensusParameters,
    pub storage: MemoryStorage,
    pub checked: Checked<Script>,
    pub layout: Layout,
    pub gas_price: u64,
    pub cids: Vec<ContractId>,
    pub listed: Vec<ContractId>,
    pub assets: Vec<AssetId>,
    pub blob_ids: Vec<BlobId>,
    pub script_words: Vec<u32>,
    pub contract_words: Vec<Vec<u32>>,
    pub script_data: Vec<u8>,
    pub max_fee_limit: u64,
    pub gas_limit: u64,
}

fn splitmix(x: &mut u64) -> u64 {
    *x = x.wrapping_add(0x9E3779B97F4A7C15);
    let mut z = *x;
    z = (z ^ (z >> 30)).wrapping_mul(0xBF58476D1CE4E5B9);
    z = (z ^ (z >> 27)).wrapping_mul(0x94D049BB133111EB);
    z ^ (z >> 31)
}

fn randomize(v: &mut serde_json::Value, st: &mut u64, key: &str) {
    match v {
        serde_json::Value::Number(_) => {
            let x = splitmix(st);
            let n = match key {
                "units_per_gas" => 1 + x % 512,
                "gas_per_unit" => 1 + x % 4,
                _ => 1 + x % 50,
            };
            *v = serde_json::Value::from(n);
        }
        serde_json::Value::Array(a) => a.iter_mut().for_each(|x| randomize(x, st, key)),
        serde_json::Value::Object(o) => {
            for (k, x) in o.iter_mut() {
                randomize(x, st, k)
            }
        }
        _ => {}
    }
}

pub fn gas_costs(s: &Sched) -> GasCosts {
    match s {
        Sched::Default => GasCosts::default(),
        Sched::Unit => {
            // `GasCosts::unit()` has dependent costs with gas_per_unit = 0 (e.g. storage_clear): a
            // range clear of 2^60 slots would then be free and run for ever. Keep every unit >= 1.
            fn fix(v: &mut serde_json::Value, key: &str) {
                match v {
                    serde_json::Value::Number(n) if key == "gas_per_unit" && n.as_u64() == Some(0) => *v = serde_json::Value::from(1u64),
                    serde_json::Value::Array(a) => a.iter_mut().for_each(|x| fix(x, key)),
                    serde_json::Value::Object(o) => o.iter_mut().for_each(|(k, x)| fix(x, k)),
                    _ => {}
                }
            }
            let mut v = serde_json::to_value(GasCosts::unit()).expect("ser");
            fix(&mut v, "");
            serde_json::from_value(v).expect("unit gas costs deserialize")
        }
        Sched::Random(seed) => {
            let mut v = serde_json::to_value(GasCosts::unit()).expect("ser");
            let mut st = *seed;
            randomize(&mut v, &mut st, "");
            serde_json::from_value(v).expect("randomized gas costs deserialize")
        }
    }
}

pub fn secret(i: u8) -> SecretKey {
    let mut b = [0x11u8; 32];
    b[31] = i + 1;
    SecretKey::try_from(&b[..]).expect("valid scalar")
}

impl WorldSpec {
    pub fn build(&self) -> Result<Built, String> {
        let mut params = ConsensusParameters::standard();
        params.set_gas_costs(gas_costs(&self.sched));
        let fee = FeeParameters::default().with_gas_price_factor(self.price_factor.max(1)).with_gas_per_byte(self.gas_per_byte);
        params.set_fee_params(fee);
        let base_asset = if self.alt_base { AssetId::from([0xBA; 32]) } else { AssetId::zeroed() };
        params.set_base_asset_id(base_asset);
        let plain_asset = |i: usize| if i == 0 { base_asset } else { plain_asset(i) };
        let height: BlockHeight = self.height.into();

        // ---- tables
        let n_c = self.contracts.len();
        let mut cids: Vec<ContractId> = (0..n_c).map(contract_id).collect();
        let listed: Vec<ContractId> = self.contracts.iter().enumerate().filter(|(_, c)| c.listed).map(|(i, _)| cids[i]).collect();
        cids.push(missing_contract());
        let keys: Vec<Bytes32> = if self.keys.is_empty() { vec![Bytes32::zeroed()] } else { self.keys.iter().map(|k| Bytes32::from(k.0)).collect() };
        let mut assets: Vec<AssetId> = (0..N_PLAIN_ASSETS).map(plain_asset).collect();
        for i in 0..n_c {
            assets.push(cids[i].asset_id(&SubAssetId::from(*keys[0])));
        }
        let blob_ids: Vec<BlobId> = self.blobs.iter().map(|b| BlobId::compute(&b.0)).chain(std::iter::once(BlobId::from([0xBB; 32]))).collect();

        let mut data = vec![];
        let mut lay = Layout::default();
        lay.off_cids = data.len() as u16;
        lay.n_cids = cids.len() as u8;
        lay.n_real_cids = n_c as u8;
        lay.n_real_blobs = self.blobs.len() as u8;
        lay.dag = self.dag;
        for c in &cids {
            data.extend_from_slice(c.as_ref());
        }
        lay.off_assets = data.len() as u16;
        lay.n_assets = assets.len() as u8;
        for a in &assets {
            data.extend_from_slice(a.as_ref());
        }
        lay.off_calls = data.len() as u16;
        let calls: Vec<(u8, u64, u64)> = if self.calls.is_empty() { vec![(0, 0, 0)] } else { self.calls.clone() };
        lay.n_calls = calls.len() as u8;
        lay.call_targets = calls.iter().map(|(ci, _, _)| call_target(*ci, n_c, cids.len()) as u8).collect();
        for (ci, a, b) in &calls {
            let id = cids[call_target(*ci, n_c, cids.len())];
            data.extend_from_slice(id.as_ref());
            data.extend_from_slice(&a.to_be_bytes());
            data.extend_from_slice(&b.to_be_bytes());
        }
        lay.off_keys = data.len() as u16;
        lay.n_keys = keys.len() as u8;
        for k in &keys {
            data.extend_from_slice(k.as_ref());
        }
        lay.off_addrs = data.len() as u16;
        lay.n_addrs = 2;
        for i in 0..2 {
            data.extend_from_slice(address(i).as_ref());
        }
        lay.off_blobs = data.len() as u16;
        lay.n_blobs = blob_ids.len() as u8;
        for b in &blob_ids {
            data.extend_from_slice(b.as_ref());
        }
        lay.off_raw = data.len() as u16;
        for w in &self.words {
            data.extend_from_slice(&w.to_be_bytes());
        }
        data.extend_from_slice(&self.raw.0);
        lay.raw_len = (64 + self.raw.0.len()) as u16;
        lay.balances_offset = fuel_vm::consts::VM_MEMORY_BALANCES_OFFSET as u32;
        // output indices are needed by the program (VarOut): compute them before assembling
        {
            let mut seen = vec![];
            for a in &self.change {
                let ai = (*a as usize) % N_PLAIN_ASSETS;
                let has_input = ai == 0 || self.coins.iter().any(|(c, _)| 1 + (*c as usize) % (N_PLAIN_ASSETS - 1) == ai);
                if has_input && !seen.contains(&ai) {
                    seen.push(ai);
                }
            }
            lay.var_out_start = (listed.len() + seen.len()) as u16;
            lay.n_var_out = self.variables.min(4);
        }
        if data.len() > 4000 {
            return Err("script data table too large".into());
        }

        // ---- storage
        let mut storage = MemoryStorage::new(height, ContractId::from([0xCB; 32]));
        let mut contract_words = vec![];
        for (i, c) in self.contracts.iter().enumerate() {
            let mut clay = lay.clone();
            clay.self_idx = Some(i as u8);
            let words = prog::assemble(&c.body, &clay);
            let code = prog::to_bytes(&words);
            contract_words.push(words);
            storage.storage_contract_insert(&cids[i], &code).map_err(|e| format!("{e:?}"))?;
            for (k, v) in &c.slots {
                let key = keys[(*k as usize) % keys.len()];
                storage.contract_state_insert(&cids[i], &key, &v.0).map_err(|e| format!("{e:?}"))?;
            }
            for (a, amt) in &c.balances {
                let asset = assets[(*a as usize) % assets.len()];
                storage.contract_asset_id_balance_insert(&cids[i], &asset, *amt).map_err(|e| format!("{e:?}"))?;
            }
        }
        for (i, b) in self.blobs.iter().enumerate() {
            StorageWrite::<BlobData>::write_bytes(&mut storage, &blob_ids[i], &b.0).map_err(|e| format!("{e:?}"))?;
        }
        storage.commit();
        storage.persist();

        // ---- transaction
        let max_fee_limit: u64 = 1 << 40;
        let script_words = prog::assemble(&self.script, &lay);
        let mut tb = TransactionBuilder::script(prog::to_bytes(&script_words), data.clone());
        tb.with_params(params.clone());
        // `gas_limit` is a budget in schedule-neutral units (≈ instructions); scale by the schedule
        let gas_limit = self.gas_limit.saturating_mul(match self.sched { Sched::Default => 40, Sched::Unit => 1, Sched::Random(_) => 25 });
        tb.script_gas_limit(gas_limit);
        tb.max_fee_limit(max_fee_limit);
        tb.tip(self.tip);
        let mut avail = vec![0u128; N_PLAIN_ASSETS];
        let mut n = 0u8;
        let mut utxo = |n: &mut u8| {
            *n += 1;
            UtxoId::new(Bytes32::from([*n; 32]), *n as u16)
        };
        tb.add_unsigned_coin_input(secret(0), utxo(&mut n), max_fee_limit + self.base_extra, plain_asset(0), TxPointer::default());
        avail[0] += self.base_extra as u128;
        for (a, amt) in &self.coins {
            let ai = 1 + (*a as usize) % (N_PLAIN_ASSETS - 1);
            tb.add_unsigned_coin_input(secret(1 + (n % 2)), utxo(&mut n), *amt, plain_asset(ai), TxPointer::default());
            avail[ai] += *amt as u128;
        }
        if let Some(amt) = self.msg_coin {
            tb.add_unsigned_message_input(secret(0), address(1), Nonce::from([0x61; 32]), amt, vec![]);
            avail[0] += amt as u128;
        }
        if let Some((amt, d)) = &self.msg_data {
            let d = if d.0.is_empty() { vec![1u8] } else { d.0.clone() };
            tb.add_unsigned_message_input(secret(1), address(0), Nonce::from([0x62; 32]), *amt, d);
        }
        for id in &listed {
            let idx = tb.inputs().len() as u16;
            tb.add_input(Input::contract(utxo(&mut n), Bytes32::zeroed(), Bytes32::zeroed(), TxPointer::default(), *id));
            tb.add_output(Output::contract(idx, Bytes32::zeroed(), Bytes32::zeroed()));
        }
        let mut seen = vec![];
        for a in &self.change {
            let ai = (*a as usize) % N_PLAIN_ASSETS;
            // a change output needs the asset among the inputs
            let has_input = ai == 0 || self.coins.iter().any(|(c, _)| 1 + (*c as usize) % (N_PLAIN_ASSETS - 1) == ai);
            if has_input && !seen.contains(&ai) {
                seen.push(ai);
                tb.add_output(Output::change(address(0), 0, plain_asset(ai)));
            }
        }
        if lay.var_out_start as usize != tb.outputs().len() {
            return Err("layout: variable output index mismatch".into());
        }
        for _ in 0..self.variables.min(4) {
            tb.add_output(Output::variable(Address::zeroed(), 0, AssetId::zeroed()));
        }
        for (a, amt) in &self.coin_outs {
            let ai = (*a as usize) % N_PLAIN_ASSETS;
            let amt = (*amt as u128).min(avail[ai] / 2);
            if amt > 0 {
                avail[ai] -= amt;
                tb.add_output(Output::coin(address(1), amt as u64, plain_asset(ai)));
            }
        }
        let tx = tb.finalize();
        let checked = tx.into_checked(height, &params).map_err(|e| format!("into_checked: {e:?}"))?;
        Ok(Built {
            params,
            storage,
            checked,
            layout: lay,
            gas_price: self.gas_price,
            cids,
            listed,
            assets,
            blob_ids,
            script_words,
            contract_words,
            script_data: data,
            max_fee_limit,
            gas_limit,
        })
    }
}

pub type Vm<S> = Interpreter<MemoryInstance, S, Script, NotSupportedEcal, Normal>;

#[derive(Debug, Clone, PartialEq)]
pub struct RunOut {
    /// Ok(final program state) or Err(debug string of the interpreter error)
    pub state: Result<ProgramState, String>,
    pub receipts: Vec<Receipt>,
    pub tx: Script,
}

impl Built {
    pub fn ready(&self) -> Result<fuel_vm::checked_transaction::Ready<Script>, String> {
        self.checked
            .clone()
            .into_ready(self.gas_price, self.params.gas_costs(), self.params.fee_params(), None)
            .map_err(|e| format!("into_ready: {e:?}"))
    }
    pub fn interpreter_params(&self) -> InterpreterParams {
        InterpreterParams::new(self.gas_price, &self.params)
    }
    pub fn new_vm<S: InterpreterStorage>(&self, storage: S) -> Vm<S> {
        Interpreter::with_storage(MemoryInstance::new(), storage, self.interpreter_params())
    }
    /// run without debugger on a fresh VM; returns outcome and the storage afterwards
    pub fn run_plain(&self) -> Result<(RunOut, MemoryStorage), String> {
        let ready = self.ready()?;
        let mut vm = self.new_vm(self.storage.clone());
        let out = run_on(&mut vm, ready);
        let st = vm.as_ref().clone();
        Ok((out, st))
    }
}

pub fn run_on<S: InterpreterStorage>(vm: &mut Vm<S>, ready: fuel_vm::checked_transaction::Ready<Script>) -> RunOut
where
    S::DataError: std::fmt::Debug,
{
    let state = match vm.transact(ready) {
        Ok(st) => Ok(*st.state()),
        Err(e) => Err(format!("{e:?}")),
    };
    RunOut { state, receipts: vm.receipts().to_vec(), tx: vm.transaction().clone() }
}

/// What the stepping monitor hands to the observer before each instruction executes.
pub struct Step<'a, S> {
    pub vm: &'a Vm<S>,
    pub index: u64,
    pub pc: u64,
    /// raw instruction word at $pc, if readable
    pub raw: Option<u32>,
}

/// Run with single-stepping; `before(step)` is called before every instruction,
/// `after(vm)` right after it executed (i.e. at the next event or at the end).
/// `max_steps` bounds the loop (returns Err("step-budget") if exceeded).
pub fn run_stepping<S: InterpreterStorage>(
    vm: &mut Vm<S>,
    ready: fuel_vm::checked_transaction::Ready<Script>,
    max_steps: u64,
    mut before: impl FnMut(&Step<S>),
    mut after: impl FnMut(&Vm<S>, bool),
) -> Result<RunOut, String>
where
    S::DataError: std::fmt::Debug,
{
    vm.set_single_stepping(true);
    let mut state = match vm.transact(ready) {
        Ok(st) => Ok(*st.state()),
        Err(e) => Err(format!("{e:?}")),
    };
    let mut index = 0u64;
    loop {
        match state {
            Ok(ProgramState::RunProgram(DebugEval::Breakpoint(_))) => {
                if index > 0 {
                    after(vm, false);
                }
                let pc = vm.registers()[RegId::PC];
                let raw = vm.memory().read_bytes::<_, 4>(pc).ok().map(u32::from_be_bytes);
                before(&Step { vm, index, pc, raw });
                index += 1;
                if index > max_steps {
                    return Err("step-budget".into());
                }
                state = vm.resume().map_err(|e| format!("{e:?}"));
            }
            _ => break,
        }
    }
    if index > 0 {
        after(vm, true);
    }
    Ok(RunOut { state, receipts: vm.receipts().to_vec(), tx: vm.transaction().clone() })
}

/// storage comparison through the Debug representation of the live (`memory`) state
pub fn storage_fingerprint(s: &MemoryStorage) -> String {
    let d = format!("{s:?}");
    let start = d.find("memory: MemoryStorageInner").unwrap_or(0);
    let end = d.find(", transacted: MemoryStorageInner").unwrap_or(d.len());
    d[start..end].to_string()
}

// ------------------------------------------------------------------ strategies

pub fn sched() -> impl Strategy<Value = Sched> {
    prop_oneof![5 => Just(Sched::Default), 2 => Just(Sched::Unit), 2 => any::<u64>().prop_map(Sched::Random)]
}

pub fn contract_spec(max_body: usize) -> impl Strategy<Value = ContractSpec> {
    (
        prog::body(prog::W_CONTRACT, true, max_body),
        (prop::option::weighted(0.85, 50u64..5000), prop::collection::vec((0u8..6, prop_oneof![0u64..1000, word()]), 0..3)).prop_map(|(base, mut v)| {
            if let Some(b) = base {
                v.insert(0, (0u8, b));
            }
            v
        }),
        prop::collection::vec((0u8..6, prop_oneof![3 => prop::collection::vec(any::<u8>(), 32..=32).prop_map(HexBytes), 2 => hexbytes()]), 0..5),
        prop::bool::weighted(0.95),
    )
        .prop_map(|(body, balances, slots, listed)| ContractSpec { body, balances, slots, listed })
}

pub fn clustered_keys() -> impl Strategy<Value = Vec<B32>> {
    // keys that adjoin (k, k+1, k+2) and keys at 2^256 - j
    (b32(), prop_oneof![3 => Just(0u8), 1 => Just(1u8), 2 => Just(2u8)]).prop_map(|(base, mode)| {
        let mut ks = vec![];
        let mut k = match mode {
            0 => base.0,
            1 => {
                let mut a = [0xffu8; 32];
                a[31] = 0xfd;
                a
            }
            _ => [0u8; 32],
        };
        for _ in 0..4 {
            ks.push(B32(k));
            // increment big-endian
            for i in (0..32).rev() {
                k[i] = k[i].wrapping_add(1);
                if k[i] != 0 {
                    break;
                }
            }
        }
        ks.push(base);
        ks
    })
}

pub fn gas_limit() -> impl Strategy<Value = u64> {
    prop_oneof![1 => 0u64..100, 1 => 100u64..1000, 5 => 1000u64..20_000, 2 => 20_000u64..60_000]
}

pub fn world(script_w: prog::Weights, max_body: usize, max_contracts: usize) -> impl Strategy<Value = WorldSpec> {
    (
        (sched(), 0u64..4, prop::sample::select(vec![1u64, 7, 92, 1_000_000_000]), prop::sample::select(vec![0u64, 4, 63]), 0u64..11, gas_limit(), prop_oneof![100u64..1000, 100u64..1_000_000]),
        (prop_oneof![1 => Just(0usize), 3 => Just(1usize), 5 => Just(2usize), 2 => Just(3usize)].prop_flat_map(move |n| prop::collection::vec(contract_spec(max_body), n.min(max_contracts))), prop_oneof![1 => Just(0usize), 4 => 1usize..3].prop_flat_map(|n| prop::collection::vec(hexbytes(), n))),
        (
            prop::collection::vec((0u8..2, prop_oneof![0u64..1000, word()]), 0..3),
            prop::option::weighted(0.3, 0u64..5000),
            prop::option::weighted(0.3, (0u64..5000, hexbytes())),
            prop::collection::vec(0u8..3, 0..3),
            prop_oneof![1 => Just(0u8), 4 => 1u8..4],
            prop::collection::vec((0u8..3, 0u64..500), 0..3),
        ),
        (prog::body(script_w, false, max_body), prop::collection::vec((prop_oneof![8 => 0u8..3, 1 => 4u8..9], word(), word()), 1..5), clustered_keys(), [word(), word(), word(), word(), word(), word(), word(), word()], prop::collection::vec(any::<u8>(), 64..=64), 0u32..100, prop::bool::weighted(0.85), prop::bool::weighted(0.3)),
    )
        .prop_map(|((sched, gas_price, price_factor, gas_per_byte, tip, gas_limit, base_extra), (contracts, blobs), (coins, msg_coin, msg_data, change, variables, coin_outs), (script, calls, keys, words, raw, height, dag, alt_base))| WorldSpec {
            dag,
            alt_base,
            sched,
            gas_price,
            price_factor,
            gas_per_byte,
            tip,
            gas_limit,
            base_extra,
            contracts,
            blobs,
            coins,
            msg_coin,
            msg_data,
            change,
            variables,
            coin_outs,
            script,
            calls,
            keys,
            words,
            raw: HexBytes(raw),
            height,
        })
}

/// debugging aid: run a world single-stepped and print one line per instruction
pub fn trace(spec: &WorldSpec, limit: u64) {
    let b = match spec.build() {
        Ok(b) => b,
        Err(e) => {
            println!("world invalid: {e}");
            return;
        }
    };
    let ready = match b.ready() {
        Ok(r) => r,
        Err(e) => {
            println!("not ready: {e}");
            return;
        }
    };
    let mut vm = b.new_vm(b.storage.clone());
    let out = run_stepping(
        &mut vm,
        ready,
        limit,
        |s| {
            let r = s.vm.registers();
            let dis = s.raw.and_then(|w| fuel_asm::Instruction::try_from(w).ok()).map(|i| format!("{i:?}")).unwrap_or_else(|| format!("{:?}", s.raw));
            println!(
                "{:>5} pc={:<6} is={:<6} fp={:<6} sp={:<6} hp={:<9} cgas={:<8} ggas={:<8} {}",
                s.index, r[RegId::PC], r[RegId::IS], r[RegId::FP], r[RegId::SP], r[RegId::HP], r[RegId::CGAS], r[RegId::GGAS], dis
            );
        },
        |_, _| {},
    );
    match out {
        Ok(o) => {
            println!("state: {:?}", o.state);
            for r in &o.receipts {
                println!("  {r:?}");
            }
        }
        Err(e) => println!("stopped: {e}"),
    }
}
