//! vmfix — a "planted VM" fixture: an initialised script `Interpreter` on which single
//! instructions are executed with `Interpreter::instruction`, after registers (and, by the
//! caller, memory) were planted through the public accessors. Shared by C21, C22, C25, C05.
//!
//! * `script_vm(..)` builds a fresh interpreter (memory storage, default consensus parameters,
//!   default gas costs, gas price 0) initialised with a trivially valid script transaction
//!   (`TransactionBuilder::script(..).add_fee_input()`), exactly like the repository's own
//!   single-instruction tests.
//! * `step(vm, raw)` runs one raw instruction word and normalises the result.
//! * `with_reused_vm(f)` hands out a per-thread VM created once with `default_vm()`; before `f`
//!   runs, all 64 registers are reset to their post-initialisation values. It is only sound for
//!   instructions that touch nothing but registers (the register ALU); anything else must use a
//!   fresh VM so that a case stays a pure function of the case.
//!   Measured (release, this sandbox): `default_vm()` ≈ 530 µs (the fixture transaction is
//!   signed), one planted step on the reused VM ≈ 0.3 µs; `tests::fixture_cost_and_purity`
//!   also asserts that a reused-VM step equals a fresh-VM step.

use fuel_asm::{op, PanicReason, RegId};
use fuel_tx::{ConsensusParameters, Finalizable, Script, TransactionBuilder};
use fuel_vm::checked_transaction::IntoChecked;
use fuel_vm::error::InterpreterError;
use fuel_vm::interpreter::{Interpreter, InterpreterParams, MemoryInstance};
use fuel_vm::state::ExecuteState;
use fuel_vm::storage::MemoryStorage;
use std::cell::RefCell;

pub type ScriptVm = Interpreter<MemoryInstance, MemoryStorage, Script>;

pub const NREGS: usize = 64;
pub type RegFile = [u64; NREGS];

/// register indices that hold gas counters (`$ggas`, `$cgas`)
pub const GAS_REGS: [usize; 2] = [0x09, 0x0A];

pub fn is_gas_reg(i: usize) -> bool {
    GAS_REGS.contains(&i)
}

/// Parameters of the fixture transaction.
#[derive(Clone, Debug)]
pub struct VmSpec {
    pub script: Vec<u8>,
    pub script_data: Vec<u8>,
    pub gas_limit: u64,
}

impl Default for VmSpec {
    fn default() -> Self {
        VmSpec { script: op::ret(RegId::ONE).to_bytes().to_vec(), script_data: vec![], gas_limit: 1_000_000 }
    }
}

/// Build an interpreter and initialise it with a checked, ready script transaction.
/// Errors are reported as strings (they are harness problems, never violations).
pub fn script_vm(spec: &VmSpec) -> Result<ScriptVm, String> {
    let gas_price = 0;
    let consensus_params = ConsensusParameters::standard();
    let mut vm: ScriptVm = Interpreter::with_storage(
        MemoryInstance::new(),
        MemoryStorage::default(),
        InterpreterParams::new(gas_price, &consensus_params),
    );
    let tx = TransactionBuilder::script(spec.script.clone(), spec.script_data.clone())
        .script_gas_limit(spec.gas_limit)
        .add_fee_input()
        .finalize();
    let ready = tx
        .into_checked(Default::default(), &consensus_params)
        .map_err(|e| format!("fixture tx failed the check: {e:?}"))?
        .into_ready(gas_price, vm.gas_costs(), consensus_params.fee_params(), None)
        .map_err(|e| format!("fixture tx failed the dynamic checks: {e:?}"))?;
    vm.init_script(ready).map_err(|e| format!("init_script failed: {e:?}"))?;
    Ok(vm)
}

pub fn default_vm() -> Result<ScriptVm, String> {
    script_vm(&VmSpec::default())
}

pub fn regfile(vm: &ScriptVm) -> RegFile {
    let mut r = [0u64; NREGS];
    r.copy_from_slice(&vm.registers()[..NREGS]);
    r
}

pub fn plant(vm: &mut ScriptVm, regs: &RegFile) {
    vm.registers_mut()[..NREGS].copy_from_slice(regs);
}

/// Outcome of one instruction.
#[derive(Clone, Debug, PartialEq, Eq)]
pub enum StepError {
    /// a well-formed VM panic
    Panic(PanicReason),
    /// anything else (storage error, bug, …): rendered
    Other(String),
}

/// Execute one raw instruction word outside a predicate context.
pub fn step(vm: &mut ScriptVm, raw: u32) -> Result<ExecuteState, StepError> {
    step_in::<false>(vm, raw)
}

/// Execute one raw instruction word; `PREDICATE` selects the predicate restrictions.
pub fn step_in<const PREDICATE: bool>(vm: &mut ScriptVm, raw: u32) -> Result<ExecuteState, StepError> {
    match vm.instruction::<u32, PREDICATE>(raw) {
        Ok(s) => Ok(s),
        Err(e) => match e {
            InterpreterError::PanicInstruction(p) => Err(StepError::Panic(*p.reason())),
            InterpreterError::Panic(r) => Err(StepError::Panic(r)),
            other => Err(StepError::Other(format!("{other:?}"))),
        },
    }
}

thread_local! {
    static REUSED: RefCell<Option<(ScriptVm, RegFile)>> = const { RefCell::new(None) };
}

/// Run `f` on this thread's long-lived default VM with all registers reset to their
/// post-initialisation values (second argument). Register-only instructions only.
/// If `f` panics the VM is dropped and rebuilt on the next call.
pub fn with_reused_vm<R>(f: impl FnOnce(&mut ScriptVm, &RegFile) -> R) -> Result<R, String> {
    let taken = REUSED.with(|c| c.borrow_mut().take());
    let (mut vm, init) = match taken {
        Some(x) => x,
        None => {
            let vm = default_vm()?;
            let init = regfile(&vm);
            (vm, init)
        }
    };
    plant(&mut vm, &init);
    let r = f(&mut vm, &init);
    REUSED.with(|c| *c.borrow_mut() = Some((vm, init)));
    Ok(r)
}

#[cfg(test)]
mod tests {
    use super::*;

    #[test]
    fn fixture_cost_and_purity() {
        let t = std::time::Instant::now();
        let n = 200;
        for _ in 0..n {
            let vm = default_vm().unwrap();
            std::hint::black_box(&vm);
        }
        eprintln!("default_vm(): {:?} per VM", t.elapsed() / n);
        // a step on a reused VM equals the step on a fresh VM
        let add = 0x10u32 << 24 | 0x10 << 18 | 0x01 << 12 | 0x01 << 6; // ADD r16, $one, $one
        let fresh = {
            let mut vm = default_vm().unwrap();
            let r = step(&mut vm, add);
            (r, regfile(&vm))
        };
        for _ in 0..3 {
            let reused = with_reused_vm(|vm, _| {
                let r = step(vm, add);
                (r, regfile(vm))
            })
            .unwrap();
            assert_eq!(fresh, reused);
        }
        assert_eq!(fresh.1[0x10], 2);
        let t = std::time::Instant::now();
        for _ in 0..100_000 {
            with_reused_vm(|vm, _| step(vm, add)).unwrap().unwrap();
        }
        eprintln!("reused step: {:?} per case", t.elapsed() / 100_000);
    }
}
