//! mkcorpus_vm <dir> [count] — writes a deterministic seed corpus for the `vm` fuzz target
//! (fuzz/fuzz_targets/vm.rs): assembled G-PROG programs (script = prelude ++ templates, the
//! world's script-data table, the code of the first two contracts) in the target's input layout:
//!   8 header bytes [schedule, gas class, seed, contracts, script len LE, data len LE],
//!   script, script data, [u16 LE length + contract 0], [contract 1].
//! Seed: VERIF_SEED (default 0). File names are `w<index>-<variant>` so re-runs overwrite.
#![allow(dead_code)]

#[path = "../gens/mod.rs"]
mod gens;
#[path = "../vm/mod.rs"]
mod vm;

use proptest::strategy::{Strategy, ValueTree};
use proptest::test_runner::{Config, RngAlgorithm, TestRng, TestRunner};
use std::path::Path;
use vm::{prog, world};

fn encode(sched: u8, gas_class: u8, seed: u8, script: &[u8], data: &[u8], contracts: &[Vec<u8>]) -> Option<Vec<u8>> {
    if script.len() > u16::MAX as usize || data.len() > u16::MAX as usize {
        return None;
    }
    let n = contracts.len().min(2);
    let mut b = vec![sched, gas_class, seed, n as u8];
    b.extend_from_slice(&(script.len() as u16).to_le_bytes());
    b.extend_from_slice(&(data.len() as u16).to_le_bytes());
    b.extend_from_slice(script);
    b.extend_from_slice(data);
    if n >= 1 {
        if contracts[0].len() > u16::MAX as usize {
            return None;
        }
        b.extend_from_slice(&(contracts[0].len() as u16).to_le_bytes());
        b.extend_from_slice(&contracts[0]);
    }
    if n == 2 {
        b.extend_from_slice(&contracts[1]);
    }
    Some(b)
}

fn main() {
    let args: Vec<String> = std::env::args().skip(1).collect();
    if args.is_empty() {
        eprintln!("usage: mkcorpus_vm <dir> [count]");
        std::process::exit(2);
    }
    let dir = Path::new(&args[0]);
    std::fs::create_dir_all(dir).expect("create corpus dir");
    let n: usize = args.get(1).and_then(|s| s.parse().ok()).unwrap_or(160);
    let seed: u64 = std::env::var("VERIF_SEED").ok().and_then(|s| s.trim().parse::<i128>().ok()).map(|v| v as u64).unwrap_or(0);
    let mut s32 = [0u8; 32];
    for (i, c) in s32.chunks_mut(8).enumerate() {
        c.copy_from_slice(&(seed ^ (0x9E3779B97F4A7C15u64.wrapping_mul(i as u64 + 11))).to_le_bytes());
    }
    let mut runner = TestRunner::new_with_rng(Config::default(), TestRng::from_seed(RngAlgorithm::ChaCha, &s32));
    let strat = world::world(prog::W_SCRIPT, 30, 2);
    let mut files = 0usize;
    for i in 0..n {
        let spec = strat.new_tree(&mut runner).unwrap().current();
        let Ok(b) = spec.build() else { continue };
        let script = prog::to_bytes(&b.script_words);
        let contracts: Vec<Vec<u8>> = b.contract_words.iter().map(|w| prog::to_bytes(w)).collect();
        // schedule byte: default (0) for most, random (6) for a quarter; gas class 3..=5
        let sched = if i % 4 == 3 { 6 } else { 0 };
        let gas_class = 3 + (i % 3) as u8;
        if let Some(enc) = encode(sched, gas_class, i as u8, &script, &b.script_data, &contracts) {
            if enc.len() <= 8000 {
                std::fs::write(dir.join(format!("w{i}-full")), &enc).expect("write corpus file");
                files += 1;
            }
        }
        // the script alone (no contracts), small budget
        if let Some(enc) = encode(0, 2, 0, &script, &b.script_data, &[]) {
            if enc.len() <= 8000 && i % 2 == 0 {
                std::fs::write(dir.join(format!("w{i}-script")), &enc).expect("write corpus file");
                files += 1;
            }
        }
    }
    // a few hand-made seeds: empty script, RET, a call into an empty contract
    std::fs::write(dir.join("h-empty"), encode(0, 2, 0, &[], &[], &[]).unwrap()).expect("write");
    std::fs::write(dir.join("h-ret"), encode(0, 2, 0, &[0x24, 0x04, 0, 0], &[], &[]).unwrap()).expect("write");
    files += 2;
    println!("mkcorpus_vm: wrote {files} files to {}", dir.display());
}
