//! mkcorpus <dir> [per-kind-count] — writes a deterministic seed corpus for the `decode` fuzz
//! target: valid canonical encodings of G-TX values, each prefixed with the selector byte the
//! target uses (0 Transaction, 1 Input, 2 Output, 3 Receipt, 4 Policies).
//! Seed: VERIF_SEED (default 0). File names are `<kind>-<index>` so re-runs overwrite.
#![allow(dead_code)]

#[path = "../gens/mod.rs"]
mod gens;

use fuel_types::canonical::Serialize;
use gens::tx::*;
use gens::tx_extra::*;
use proptest::strategy::{Strategy, ValueTree};
use proptest::test_runner::{Config, RngAlgorithm, TestRng, TestRunner};
use std::path::Path;

fn put(dir: &Path, name: &str, sel: u8, enc: Vec<u8>) {
    let mut b = vec![sel];
    b.extend(enc);
    std::fs::write(dir.join(name), b).expect("write corpus file");
}

fn main() {
    let args: Vec<String> = std::env::args().skip(1).collect();
    if args.is_empty() {
        eprintln!("usage: mkcorpus <dir> [count-per-kind]");
        std::process::exit(2);
    }
    let dir = Path::new(&args[0]);
    std::fs::create_dir_all(dir).expect("create corpus dir");
    let n: usize = args.get(1).and_then(|s| s.parse().ok()).unwrap_or(48);
    let seed: u64 = std::env::var("VERIF_SEED").ok().and_then(|s| s.trim().parse::<i128>().ok()).map(|v| v as u64).unwrap_or(0);
    let mut s32 = [0u8; 32];
    for (i, c) in s32.chunks_mut(8).enumerate() {
        c.copy_from_slice(&(seed ^ (0x9E3779B97F4A7C15u64.wrapping_mul(i as u64 + 1))).to_le_bytes());
    }
    let mut runner = TestRunner::new_with_rng(Config::default(), TestRng::from_seed(RngAlgorithm::ChaCha, &s32));
    let mut files = 0usize;
    // random part, flat over tx kinds / input kinds
    for kind in [0u8, 1, 3, 4, 5] {
        for i in 0..n {
            let t = tx_spec_kind(kind).new_tree(&mut runner).unwrap().current();
            // keep seeds below the fuzz target's -max_len
            let enc = t.build().to_bytes();
            if enc.len() <= 3500 {
                put(dir, &format!("tx{kind}-r{i}"), 0, enc);
                files += 1;
            }
        }
    }
    for i in 0..n {
        let m = mint_spec().new_tree(&mut runner).unwrap().current();
        put(dir, &format!("tx2-r{i}"), 0, fuel_tx::Transaction::from(m.build()).to_bytes());
        let v = in_spec().new_tree(&mut runner).unwrap().current();
        put(dir, &format!("in-r{i}"), 1, v.build().to_bytes());
        let v = out_spec().new_tree(&mut runner).unwrap().current();
        put(dir, &format!("out-r{i}"), 2, v.build().to_bytes());
        let v = receipt_spec().new_tree(&mut runner).unwrap().current();
        put(dir, &format!("rc-r{i}"), 3, v.build().to_bytes());
        let v = pol_spec_wide().new_tree(&mut runner).unwrap().current();
        put(dir, &format!("pol-r{i}"), 4, v.build().to_bytes());
        files += 5;
    }
    // lattice part (strided): every tx kind, input kind, output kind, receipt kind, 64 masks
    let mut k = 0usize;
    lattice_txs(|t| {
        k += 1;
        if k % 37 == 1 {
            put(dir, &format!("tx-l{k}"), 0, t.build().to_bytes());
            files += 1;
        }
        true
    });
    let mut k = 0usize;
    lattice_inputs(|i| {
        k += 1;
        if k % 29 == 1 {
            put(dir, &format!("in-l{k}"), 1, i.build().to_bytes());
            files += 1;
        }
        true
    });
    let mut k = 0usize;
    lattice_outputs(|o| {
        k += 1;
        if k % 4 == 1 {
            put(dir, &format!("out-l{k}"), 2, o.build().to_bytes());
            files += 1;
        }
        true
    });
    let mut k = 0usize;
    lattice_receipts(|r| {
        k += 1;
        if k % 6 == 1 {
            put(dir, &format!("rc-l{k}"), 3, r.build().to_bytes());
            files += 1;
        }
        true
    });
    for mask in 0u8..64 {
        put(dir, &format!("pol-l{mask}"), 4, lpol(mask, mask as usize).build().to_bytes());
        files += 1;
    }
    println!("mkcorpus: wrote {files} files to {}", dir.display());
}
