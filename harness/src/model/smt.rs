//! Compact sparse Merkle tree reference (256-bit keys, SHA-256).
//!
//! Definition used (property C12 statement):
//!   * value hash      VH(v)          = SHA256(v)
//!   * leaf            L(k, v)        = SHA256(0x00 ‖ k ‖ VH(v))
//!   * node            N(l, r)        = SHA256(0x01 ‖ l ‖ r)
//!   * the subtree for a set S of leaves whose keys share the first `d` bits:
//!         |S| = 0  ->  32 zero bytes
//!         |S| = 1  ->  the leaf hash itself (the subtree is *not* expanded down to depth 256)
//!         else     ->  N(subtree(S with bit d = 0, d+1), subtree(S with bit d = 1, d+1))
//!   * key bits are numbered MSB first: bit 0 is the top bit of byte 0, bit 255 the low bit of byte 31
//!   * root = subtree(all leaves, 0)
//!
//! Everything here is written from that definition; nothing calls the library under test.
//! Cost of `root`: O(n * 256) hashes worst case (two keys sharing 255 bits make a 255-node chain).
use sha2::{Digest, Sha256};
use std::collections::BTreeMap;

pub type H = [u8; 32];
pub const ZERO: H = [0u8; 32];
pub type Map = BTreeMap<H, Vec<u8>>;

pub fn value_hash(v: &[u8]) -> H {
    Sha256::digest(v).into()
}

pub fn leaf_hash(key: &H, vh: &H) -> H {
    let mut h = Sha256::new();
    h.update([0u8]);
    h.update(key);
    h.update(vh);
    h.finalize().into()
}

pub fn node_hash(l: &H, r: &H) -> H {
    let mut h = Sha256::new();
    h.update([1u8]);
    h.update(l);
    h.update(r);
    h.finalize().into()
}

/// bit `i` of the key, MSB first (`i` in 0..256)
pub fn bit(key: &H, i: usize) -> bool {
    assert!(i < 256);
    (key[i >> 3] >> (7 - (i & 7))) & 1 == 1
}

/// number of leading bits the two keys have in common (0..=256)
pub fn common_prefix(a: &H, b: &H) -> usize {
    let mut i = 0;
    while i < 256 && bit(a, i) == bit(b, i) {
        i += 1;
    }
    i
}

/// (key, leaf hash) pairs in ascending key order
fn entries(map: &Map) -> Vec<(H, H)> {
    map.iter().map(|(k, v)| (*k, leaf_hash(k, &value_hash(v)))).collect()
}

/// split a key-sorted slice whose keys agree on bits `0..depth` by bit `depth`
fn split(es: &[(H, H)], depth: usize) -> (&[(H, H)], &[(H, H)]) {
    let at = es.iter().take_while(|e| !bit(&e.0, depth)).count();
    debug_assert!(es[at..].iter().all(|e| bit(&e.0, depth)));
    es.split_at(at)
}

fn subtree(es: &[(H, H)], depth: usize) -> H {
    match es.len() {
        0 => ZERO,
        1 => es[0].1,
        _ => {
            let (l, r) = split(es, depth);
            node_hash(&subtree(l, depth + 1), &subtree(r, depth + 1))
        }
    }
}

/// compact sparse Merkle root of the map
pub fn root(map: &Map) -> H {
    subtree(&entries(map), 0)
}

// ------------------------------------------------------------------ nodes of the compact tree

#[derive(Debug, Clone, PartialEq, Eq)]
pub struct RefNode {
    /// 0 for leaves, 256 - depth for internal nodes
    pub height: u32,
    pub leaf: bool,
    /// leaf: key; node: left child hash
    pub lo: H,
    /// leaf: value hash; node: right child hash
    pub hi: H,
}

fn collect(es: &[(H, H)], depth: usize, map: &Map, out: &mut BTreeMap<H, RefNode>) -> H {
    match es.len() {
        0 => ZERO,
        1 => {
            let k = es[0].0;
            out.insert(es[0].1, RefNode { height: 0, leaf: true, lo: k, hi: value_hash(&map[&k]) });
            es[0].1
        }
        _ => {
            let (l, r) = split(es, depth);
            let lh = collect(l, depth + 1, map, out);
            let rh = collect(r, depth + 1, map, out);
            let h = node_hash(&lh, &rh);
            out.insert(h, RefNode { height: (256 - depth) as u32, leaf: false, lo: lh, hi: rh });
            h
        }
    }
}

/// every node (leaves and internal nodes, keyed by hash) of the compact tree of `map`
pub fn nodes(map: &Map) -> (H, BTreeMap<H, RefNode>) {
    let mut out = BTreeMap::new();
    let r = collect(&entries(map), 0, map, &mut out);
    (r, out)
}

/// depth (number of side nodes on its path) of every leaf, in key order
pub fn leaf_depths(map: &Map) -> Vec<u16> {
    let keys: Vec<&H> = map.keys().collect();
    let mut out = Vec::with_capacity(keys.len());
    for (i, k) in keys.iter().enumerate() {
        // in a sorted key list the longest common prefix is with a neighbour
        let mut d = 0usize;
        if i > 0 {
            d = d.max(common_prefix(k, keys[i - 1]) + 1);
        }
        if i + 1 < keys.len() {
            d = d.max(common_prefix(k, keys[i + 1]) + 1);
        }
        out.push(d as u16);
    }
    out
}

// ------------------------------------------------------------------ reference prover

#[derive(Debug, Clone, PartialEq, Eq)]
pub enum Terminal {
    /// the path of the key ends at the key's own leaf
    Included,
    /// the path ends at the single leaf of another key
    Other { key: H, value_hash: H },
    /// the path ends at an empty subtree
    Empty,
}

#[derive(Debug, Clone, PartialEq, Eq)]
pub struct RefProof {
    /// sibling hashes, nearest to the terminal first, child of the root last
    pub side: Vec<H>,
    pub terminal: Terminal,
}

/// Walk from the root along `key` while the current subtree holds two or more leaves,
/// recording the sibling subtree at each step.
pub fn prove(map: &Map, key: &H) -> RefProof {
    let all = entries(map);
    let mut es: &[(H, H)] = &all;
    let mut depth = 0usize;
    let mut side_top_down = vec![];
    while es.len() >= 2 {
        let (l, r) = split(es, depth);
        let (mine, other) = if bit(key, depth) { (r, l) } else { (l, r) };
        side_top_down.push(subtree(other, depth + 1));
        es = mine;
        depth += 1;
    }
    let terminal = match es.first() {
        None => Terminal::Empty,
        Some((k, _)) if k == key => Terminal::Included,
        Some((k, _)) => Terminal::Other { key: *k, value_hash: value_hash(&map[k]) },
    };
    side_top_down.reverse();
    RefProof { side: side_top_down, terminal }
}

/// The compact tree of a map, materialised once (one root computation), so that many proofs can
/// be read off without re-hashing. `RefTree::prove` and `prove` give the same answer.
pub struct RefTree {
    pub root: H,
    pub nodes: BTreeMap<H, RefNode>,
}

impl RefTree {
    pub fn build(map: &Map) -> Self {
        let (root, nodes) = nodes(map);
        RefTree { root, nodes }
    }

    pub fn prove(&self, key: &H) -> RefProof {
        let mut cur = self.root;
        let mut depth = 0usize;
        let mut side_top_down = vec![];
        let terminal = loop {
            if cur == ZERO {
                break Terminal::Empty;
            }
            let n = &self.nodes[&cur];
            if n.leaf {
                break if n.lo == *key { Terminal::Included } else { Terminal::Other { key: n.lo, value_hash: n.hi } };
            }
            let (mine, other) = if bit(key, depth) { (n.hi, n.lo) } else { (n.lo, n.hi) };
            side_top_down.push(other);
            cur = mine;
            depth += 1;
        };
        side_top_down.reverse();
        RefProof { side: side_top_down, terminal }
    }
}

/// Where the path of `key` ends, without hashing: (depth, key of the single leaf there, if any).
pub fn locate(map: &Map, key: &H) -> (usize, Option<H>) {
    let keys: Vec<H> = map.keys().copied().collect();
    let mut ks: &[H] = &keys;
    let mut depth = 0usize;
    while ks.len() >= 2 {
        let at = ks.iter().take_while(|k| !bit(k, depth)).count();
        ks = if bit(key, depth) { &ks[at..] } else { &ks[..at] };
        depth += 1;
    }
    (depth, ks.first().copied())
}

// ------------------------------------------------------------------ reference verifier

#[derive(Debug, Clone, PartialEq, Eq)]
pub enum Claim {
    /// "key is present with this value"
    Inclusion { value: Vec<u8> },
    /// "key is absent: its path ends at an empty subtree"
    ExclusionEmpty,
    /// "key is absent: its path ends at the single leaf (leaf_key, leaf_value_hash)"
    ExclusionLeaf { leaf_key: H, leaf_value_hash: H },
}

/// hash the tree must have at `depth` on the path of `key`, given what the proof claims below it
fn expected_at(key: &H, side: &[H], terminal: &H, depth: usize) -> H {
    let len = side.len();
    if depth == len {
        return *terminal;
    }
    // sibling at `depth + 1` is stored `depth` places from the end
    let sib = &side[len - 1 - depth];
    let below = expected_at(key, side, terminal, depth + 1);
    if bit(key, depth) { node_hash(sib, &below) } else { node_hash(&below, sib) }
}

/// Reference verification of a compact-SMT proof.
///
/// `side` is in the order of `RefProof::side`. The proof is accepted iff
///  * it is no longer than the key has bits,
///  * an exclusion leaf does not carry the queried key itself (such a leaf would prove presence), and
///  * placing the claimed terminal `side.len()` levels below the root on the path of `key` and
///    hashing upwards with the given siblings gives `root`.
pub fn verify(root: &H, key: &H, side: &[H], claim: &Claim) -> bool {
    if side.len() > 256 {
        return false;
    }
    let terminal = match claim {
        Claim::Inclusion { value } => leaf_hash(key, &value_hash(value)),
        Claim::ExclusionEmpty => ZERO,
        Claim::ExclusionLeaf { leaf_key, leaf_value_hash } => {
            if leaf_key == key {
                return false;
            }
            leaf_hash(leaf_key, leaf_value_hash)
        }
    };
    expected_at(key, side, &terminal, 0) == *root
}

/// Is the claim *true* of the map (independent of any proof)?
pub fn claim_true(map: &Map, key: &H, claim: &Claim) -> bool {
    match claim {
        Claim::Inclusion { value } => map.get(key).map(|v| v == value).unwrap_or(false),
        Claim::ExclusionEmpty | Claim::ExclusionLeaf { .. } => !map.contains_key(key),
    }
}

#[cfg(test)]
mod tests {
    use super::*;

    fn k(b: u8) -> H {
        let mut a = [0u8; 32];
        a[0] = b;
        a
    }

    #[test]
    fn small() {
        let mut m = Map::new();
        assert_eq!(root(&m), ZERO);
        m.insert(k(0x80), b"a".to_vec());
        let la = leaf_hash(&k(0x80), &value_hash(b"a"));
        assert_eq!(root(&m), la);
        m.insert(k(0xc0), b"b".to_vec());
        let lb = leaf_hash(&k(0xc0), &value_hash(b"b"));
        // both keys start with bit 1: root = N(0, N(la, lb))
        assert_eq!(root(&m), node_hash(&ZERO, &node_hash(&la, &lb)));
        let p = prove(&m, &k(0x00));
        assert_eq!(p.terminal, Terminal::Empty);
        assert_eq!(p.side, vec![node_hash(&la, &lb)]);
        assert!(verify(&root(&m), &k(0x00), &p.side, &Claim::ExclusionEmpty));
        let p = prove(&m, &k(0x80));
        assert_eq!(p.terminal, Terminal::Included);
        assert_eq!(p.side, vec![lb, ZERO]);
        assert!(verify(&root(&m), &k(0x80), &p.side, &Claim::Inclusion { value: b"a".to_vec() }));
        assert!(!verify(&root(&m), &k(0x80), &p.side, &Claim::Inclusion { value: b"b".to_vec() }));
        let p = prove(&m, &k(0xa0));
        assert_eq!(p.terminal, Terminal::Other { key: k(0x80), value_hash: value_hash(b"a") });
        assert_eq!(leaf_depths(&m), vec![2, 2]);
        assert_eq!(nodes(&m).1.len(), 4);
        assert_eq!(locate(&m, &k(0xa0)), (2, Some(k(0x80))));
        assert_eq!(locate(&m, &k(0x00)), (1, None));
    }

    /// published vectors (fuel-merkle/docs/test-specs, keys = SHA256(u32 big endian), value "DATA")
    #[test]
    fn known_answers() {
        let key = |i: u32| -> H { value_hash(&i.to_be_bytes()) };
        let mut m = Map::new();
        for i in 0..5u32 {
            m.insert(key(i), b"DATA".to_vec());
        }
        assert_eq!(hex::encode(root(&m)), "108f731f2414e33ae57e584dc26bd276db07874436b2264ca6e520c658185c6b");
        let mut m = Map::new();
        for i in 0..5u32 {
            m.insert(key(2 * i), b"DATA".to_vec());
        }
        assert_eq!(hex::encode(root(&m)), "e912e97abc67707b2e6027338292943b53d01a7fbd7b244674128c7e468dd696");
        let mut m = Map::new();
        m.insert(key(0), vec![]);
        assert_eq!(hex::encode(root(&m)), "3529664b414de6285270f7ebda7a43e20ae0ff6191c07d876b86282eb8ce93ce");
    }

    #[test]
    fn provers_agree_on_deep_keys() {
        let mut m = Map::new();
        let base = [0xa5u8; 32];
        for pos in [255usize, 254, 200, 128, 8, 0] {
            let mut kk = base;
            kk[pos >> 3] ^= 1 << (7 - (pos & 7));
            m.insert(kk, vec![pos as u8]);
        }
        m.insert(base, vec![]);
        let rt = RefTree::build(&m);
        assert_eq!(rt.root, root(&m));
        let mut probes: Vec<H> = m.keys().copied().collect();
        probes.push([0u8; 32]);
        probes.push([0xffu8; 32]);
        let mut near = base;
        near[31] ^= 2 | 1;
        probes.push(near);
        for p in &probes {
            let a = prove(&m, p);
            assert_eq!(a, rt.prove(p));
            let claim = match &a.terminal {
                Terminal::Included => Claim::Inclusion { value: m[p].clone() },
                Terminal::Empty => Claim::ExclusionEmpty,
                Terminal::Other { key, value_hash } => Claim::ExclusionLeaf { leaf_key: *key, leaf_value_hash: *value_hash },
            };
            assert!(verify(&rt.root, p, &a.side, &claim));
            assert!(claim_true(&m, p, &claim));
        }
        // base and base^bit255 sit 256 levels down
        assert_eq!(prove(&m, &base).side.len(), 256);
    }
}
