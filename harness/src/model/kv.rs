//! model::kv — reference model of contract storage: a plain `Map<(contract, key), bytes>` plus
//! the documented semantics of the 13 storage instructions (fuel-asm opcode docs, the status /
//! `$err` conventions of the legacy 32-byte instructions and of the dynamic ones).
//!
//! Nothing here calls the code under test.  Keys are 256-bit big-endian integers handled with
//! the byte arithmetic below.  Memory is abstracted by [`MemView`] (the property supplies the
//! pre-state view; accessibility/ownership of VM memory is C23/C24's subject, not this one's).
//!
//! `exec` never mutates the map: it returns a [`Verdict`] whose `writes` the caller applies with
//! [`Kv::apply`] once the instruction is known to have completed.

use std::collections::{BTreeMap, BTreeSet};

pub type Key = [u8; 32];
pub type Cid = [u8; 32];

/// panic reasons the model can demand (mapped to `PanicReason` by the property)
#[derive(Debug, Clone, Copy, PartialEq, Eq, PartialOrd, Ord, Hash)]
pub enum R {
    ExpectedInternalContext,
    MemoryOverflow,
    UninitalizedMemoryAccess,
    MemoryOwnership,
    StorageOutOfBounds,
    TooManySlots,
    ReservedRegisterNotWritable,
}

/// first register index a program may write
pub const WRITABLE: u8 = 16;
pub const REG_ERR: u8 = 0x08;
/// Operands used as lengths, offsets or slot counts are converted "in a way that is consistent on
/// 32-bit and 64-bit platforms": a value that does not fit 32 bits is refused up front —
/// `MemoryOverflow` for offsets / lengths, `TooManySlots` for counts.
pub const OPERAND_MAX: u64 = u32::MAX as u64;
/// ranges longer than this are never iterated by the model (the VM cannot afford them either)
pub const SCAN_CAP: u64 = 1 << 22;

/// `key + n` as a 256-bit integer; `None` when the sum does not fit
pub fn key_add(key: &Key, n: u64) -> Option<Key> {
    let mut out = *key;
    let add = n.to_be_bytes();
    let mut carry = 0u16;
    for i in (0..32).rev() {
        let a = if i >= 24 { add[i - 24] as u16 } else { 0 };
        let s = out[i] as u16 + a + carry;
        out[i] = (s & 0xff) as u8;
        carry = s >> 8;
    }
    if carry != 0 { None } else { Some(out) }
}

/// number of keys in `[key, 2^256)`, saturated to u64::MAX
pub fn keys_until_wrap(key: &Key) -> u64 {
    // 2^256 - key = (!key) + 1
    let mut inv = [0u8; 32];
    for i in 0..32 {
        inv[i] = !key[i];
    }
    if inv[..24].iter().any(|b| *b != 0) {
        return u64::MAX;
    }
    let low = u64::from_be_bytes(inv[24..].try_into().unwrap());
    low.saturating_add(1)
}

/// view of VM memory in the state before the instruction
pub trait MemView {
    /// bytes of `[addr, addr+len)` if a program may read them, else the reasons it may not
    fn read(&self, addr: u64, len: u64) -> Result<Vec<u8>, Vec<R>>;
    /// reasons why `[addr, addr+len)` may not be written by the current context (empty = may)
    fn write_violations(&self, addr: u64, len: u64) -> Vec<R>;
}

/// one storage instruction with its operand *values* (registers already read) and the indices
/// of the registers it writes
#[derive(Debug, Clone, PartialEq, Eq)]
pub enum StIns {
    Srw { dst: u8, status: u8, key_ptr: u64, word: u8 },
    Srwq { dst_ptr: u64, status: u8, key_ptr: u64, count: u64 },
    Sww { key_ptr: u64, status: u8, value: u64 },
    Swwq { key_ptr: u64, status: u8, src_ptr: u64, count: u64 },
    Scwq { key_ptr: u64, status: u8, count: u64 },
    Sclr { key_ptr: u64, count: u64 },
    /// SRDD / SRDI
    Srd { dst_ptr: u64, key_ptr: u64, offset: u64, len: u64 },
    /// SWRD / SWRI
    Swr { key_ptr: u64, src_ptr: u64, len: u64 },
    /// SUPD / SUPI (offset u64::MAX = append)
    Sup { key_ptr: u64, src_ptr: u64, offset: u64, len: u64 },
    Spld { dst: u8, key_ptr: u64 },
}

#[derive(Debug, Clone, Default, PartialEq, Eq)]
pub struct Verdict {
    /// the instruction must panic, with one of `admissible`
    pub must_panic: bool,
    pub admissible: BTreeSet<R>,
    /// the instruction completes per the model, but these panics are tolerated as well
    /// (conditions whose evaluation the documentation leaves open, e.g. empty ranges)
    pub optional: BTreeSet<R>,
    /// the range is too long to be processed within any gas limit: running out of gas is the only outcome
    pub only_out_of_gas: bool,
    /// register writes (index, value); `$err` is register 8
    pub regs: Vec<(u8, u64)>,
    /// memory writes
    pub mem: Vec<(u64, Vec<u8>)>,
    /// storage writes: Some(bytes) = set, None = remove
    pub writes: Vec<(Key, Option<Vec<u8>>)>,
    /// the resolved key (when the key pointer was readable)
    pub key: Option<Key>,
    /// what the instruction observed: (slot present, slot length) for the first key
    pub saw: Option<(bool, usize)>,
}

#[derive(Debug, Clone, Default, PartialEq, Eq)]
pub struct Kv {
    pub map: BTreeMap<(Cid, Key), Vec<u8>>,
    /// consensus parameter: maximum length of a slot value
    pub max_len: u64,
}

fn status_violation(v: &mut Verdict, reg: u8) {
    if reg < WRITABLE {
        v.admissible.insert(R::ReservedRegisterNotWritable);
    }
}

impl Kv {
    pub fn new(max_len: u64) -> Self {
        Kv { map: BTreeMap::new(), max_len }
    }
    pub fn get(&self, c: &Cid, k: &Key) -> Option<&Vec<u8>> {
        self.map.get(&(*c, *k))
    }
    pub fn apply(&mut self, c: &Cid, writes: &[(Key, Option<Vec<u8>>)]) {
        for (k, w) in writes {
            match w {
                Some(b) => {
                    self.map.insert((*c, *k), b.clone());
                }
                None => {
                    self.map.remove(&(*c, *k));
                }
            }
        }
    }

    /// keys of contract `c` inside `[key, key+count)` (no wrap: the caller rejected wrapping ranges)
    fn present_in_range(&self, c: &Cid, key: &Key, count: u64) -> Vec<Key> {
        if count == 0 {
            return vec![];
        }
        let last = key_add(key, count - 1).unwrap_or([0xff; 32]);
        self.map.range((*c, *key)..=(*c, last)).map(|((_, k), _)| *k).collect()
    }

    /// Semantics of one storage instruction executed by contract `me` (None = script context).
    pub fn exec(&self, me: Option<&Cid>, ins: &StIns, mem: &dyn MemView) -> Verdict {
        let mut v = Verdict::default();
        let key_ptr = match ins {
            StIns::Srw { key_ptr, .. }
            | StIns::Srwq { key_ptr, .. }
            | StIns::Sww { key_ptr, .. }
            | StIns::Swwq { key_ptr, .. }
            | StIns::Scwq { key_ptr, .. }
            | StIns::Sclr { key_ptr, .. }
            | StIns::Srd { key_ptr, .. }
            | StIns::Swr { key_ptr, .. }
            | StIns::Sup { key_ptr, .. }
            | StIns::Spld { key_ptr, .. } => *key_ptr,
        };
        // conditions common to all: internal context, readable key
        if me.is_none() {
            v.admissible.insert(R::ExpectedInternalContext);
        }
        let key: Option<Key> = match mem.read(key_ptr, 32) {
            Ok(b) => Some(b.try_into().expect("32 bytes")),
            Err(rs) => {
                v.admissible.extend(rs);
                None
            }
        };
        v.key = key;
        // register-destination rules
        match ins {
            StIns::Srw { dst, status, .. } => {
                status_violation(&mut v, *status);
                status_violation(&mut v, *dst);
                if dst == status {
                    v.admissible.insert(R::ReservedRegisterNotWritable);
                }
            }
            StIns::Srwq { status, .. } | StIns::Sww { status, .. } | StIns::Swwq { status, .. } | StIns::Scwq { status, .. } => status_violation(&mut v, *status),
            // SPLD: writes to $zero are ignored, other reserved registers are not writable
            StIns::Spld { dst, .. } => {
                if *dst != 0 {
                    status_violation(&mut v, *dst)
                }
            }
            _ => {}
        }
        // operand-width rule
        match ins {
            StIns::Srwq { count, .. } | StIns::Swwq { count, .. } | StIns::Scwq { count, .. } | StIns::Sclr { count, .. } => {
                if *count > OPERAND_MAX {
                    v.admissible.insert(R::TooManySlots);
                    v.must_panic = true;
                    return v;
                }
            }
            StIns::Srd { offset, len, .. } => {
                if *offset > OPERAND_MAX || *len > OPERAND_MAX {
                    v.admissible.insert(R::MemoryOverflow);
                }
            }
            StIns::Swr { len, .. } => {
                if *len > OPERAND_MAX {
                    v.admissible.insert(R::MemoryOverflow);
                }
            }
            StIns::Sup { offset, len, .. } => {
                if (*offset > OPERAND_MAX && *offset != u64::MAX) || *len > OPERAND_MAX {
                    v.admissible.insert(R::MemoryOverflow);
                }
            }
            _ => {}
        }
        let (me, key) = match (me, key) {
            (Some(m), Some(k)) => (m, k),
            _ => {
                // slot-dependent conditions cannot be evaluated; whatever they are, a panic is due
                if let (None, Some(_)) = (me, key) {
                    // operand conditions that do not depend on the contract are admissible too
                    self.operand_only_violations(ins, mem, &mut v);
                }
                v.must_panic = true;
                return v;
            }
        };
        let slot = |k: &Key| self.map.get(&(*me, *k));
        v.saw = Some(match slot(&key) {
            Some(b) => (true, b.len()),
            None => (false, 0),
        });
        match ins {
            StIns::Srw { dst, status, word, .. } => match slot(&key) {
                Some(b) => {
                    let lo = *word as usize * 8;
                    if b.len() < lo + 8 {
                        v.admissible.insert(R::StorageOutOfBounds);
                    } else {
                        v.regs.push((*dst, u64::from_be_bytes(b[lo..lo + 8].try_into().unwrap())));
                        v.regs.push((*status, 1));
                    }
                }
                None => {
                    v.regs.push((*dst, 0));
                    v.regs.push((*status, 0));
                }
            },
            StIns::Srwq { dst_ptr, status, count, .. } => {
                let mut all = true;
                let mut out = vec![];
                let mut i = 0u64;
                while i < *count {
                    if i >= SCAN_CAP {
                        v.only_out_of_gas = true;
                        break;
                    }
                    let at = dst_ptr.saturating_add(i.saturating_mul(32));
                    let Some(k) = key_add(&key, i) else {
                        v.admissible.insert(R::TooManySlots);
                        v.admissible.extend(mem.write_violations(at, 32));
                        break;
                    };
                    let wv = mem.write_violations(at, 32);
                    let mem_bad = !wv.is_empty();
                    v.admissible.extend(wv);
                    match slot(&k) {
                        Some(b) if b.len() == 32 => out.extend_from_slice(b),
                        Some(_) => {
                            v.admissible.insert(R::StorageOutOfBounds);
                            out.extend_from_slice(&[0; 32]);
                        }
                        None => {
                            all = false;
                            out.extend_from_slice(&[0; 32]);
                        }
                    }
                    if mem_bad {
                        // every later chunk is at least as far out: nothing new to learn
                        break;
                    }
                    i += 1;
                }
                if v.admissible.is_empty() && !v.only_out_of_gas {
                    if !out.is_empty() {
                        v.mem.push((*dst_ptr, out));
                    }
                    v.regs.push((*status, all as u64));
                }
            }
            StIns::Sww { status, value, .. } => {
                if 32 > self.max_len {
                    v.admissible.insert(R::StorageOutOfBounds);
                } else {
                    let mut b = vec![0u8; 32];
                    b[..8].copy_from_slice(&value.to_be_bytes());
                    v.regs.push((*status, slot(&key).is_none() as u64));
                    v.writes.push((key, Some(b)));
                }
            }
            StIns::Swwq { status, src_ptr, count, .. } => {
                let mut unset = 0u64;
                let mut i = 0u64;
                while i < *count {
                    if i >= SCAN_CAP {
                        v.only_out_of_gas = true;
                        break;
                    }
                    let Some(k) = key_add(&key, i) else {
                        v.admissible.insert(R::TooManySlots);
                        break;
                    };
                    if 32 > self.max_len {
                        v.admissible.insert(R::StorageOutOfBounds);
                    }
                    let at = src_ptr.saturating_add(i.saturating_mul(32));
                    match mem.read(at, 32) {
                        Ok(b) => {
                            if slot(&k).is_none() {
                                unset += 1;
                            }
                            v.writes.push((k, Some(b)));
                        }
                        Err(rs) => {
                            v.admissible.extend(rs);
                            break;
                        }
                    }
                    i += 1;
                }
                if v.admissible.is_empty() && !v.only_out_of_gas {
                    v.regs.push((*status, unset));
                } else {
                    v.writes.clear();
                }
            }
            StIns::Scwq { status, count, .. } => {
                if *count > keys_until_wrap(&key) {
                    v.admissible.insert(R::TooManySlots);
                } else if *count > SCAN_CAP {
                    // one charged read per slot: no gas limit covers this
                    v.only_out_of_gas = true;
                } else {
                    let present = self.present_in_range(me, &key, *count);
                    v.regs.push((*status, (present.len() as u64 == *count) as u64));
                    v.writes.extend(present.into_iter().map(|k| (k, None)));
                }
            }
            StIns::Sclr { count, .. } => {
                if *count > keys_until_wrap(&key) {
                    v.admissible.insert(R::TooManySlots);
                } else if *count > SCAN_CAP {
                    v.only_out_of_gas = true;
                } else {
                    let present = self.present_in_range(me, &key, *count);
                    v.writes.extend(present.into_iter().map(|k| (k, None)));
                }
            }
            StIns::Srd { dst_ptr, offset, len, .. } => {
                let wv = mem.write_violations(*dst_ptr, *len);
                match slot(&key) {
                    Some(b) => {
                        let end = offset.checked_add(*len);
                        let in_bounds = matches!(end, Some(e) if e <= b.len() as u64);
                        if !in_bounds {
                            v.admissible.insert(R::StorageOutOfBounds);
                        }
                        if *len == 0 {
                            // accessibility / ownership of an empty range is not specified: whatever
                            // the address, either outcome is accepted
                            v.optional.extend(wv);
                            v.optional.extend([R::MemoryOwnership, R::MemoryOverflow, R::UninitalizedMemoryAccess]);
                        } else {
                            v.admissible.extend(wv);
                        }
                        if v.admissible.is_empty() {
                            if *len > 0 {
                                v.mem.push((*dst_ptr, b[*offset as usize..(*offset + *len) as usize].to_vec()));
                            }
                            v.regs.push((REG_ERR, 0));
                        }
                    }
                    None => {
                        // absent: flagged through $err, nothing is copied; whether the destination
                        // is validated in that case is not specified
                        v.optional.extend(wv);
                        v.regs.push((REG_ERR, 1));
                    }
                }
            }
            StIns::Swr { src_ptr, len, .. } => {
                if *len > self.max_len {
                    v.admissible.insert(R::StorageOutOfBounds);
                }
                match mem.read(*src_ptr, *len) {
                    Ok(b) => {
                        if v.admissible.is_empty() {
                            v.writes.push((key, Some(b)));
                        }
                    }
                    Err(rs) => {
                        if *len == 0 {
                            v.optional.extend(rs);
                            if v.admissible.is_empty() {
                                v.writes.push((key, Some(vec![])));
                            }
                        } else {
                            v.admissible.extend(rs);
                        }
                    }
                }
            }
            StIns::Sup { src_ptr, offset, len, .. } => {
                let cur: Vec<u8> = slot(&key).cloned().unwrap_or_default();
                let off = if *offset == u64::MAX { cur.len() as u64 } else { *offset };
                let src = mem.read(*src_ptr, *len);
                if off > cur.len() as u64 {
                    v.admissible.insert(R::StorageOutOfBounds);
                }
                // the resulting value (old bytes kept, extended to offset+len) must respect the maximum
                match off.checked_add(*len) {
                    Some(e) if e.max(cur.len() as u64) <= self.max_len => {}
                    _ => {
                        v.admissible.insert(R::StorageOutOfBounds);
                    }
                }
                let data = match src {
                    Ok(b) => b,
                    Err(rs) => {
                        if *len == 0 {
                            v.optional.extend(rs);
                        } else {
                            v.admissible.extend(rs);
                        }
                        vec![]
                    }
                };
                if v.admissible.is_empty() {
                    let (off, len) = (off as usize, *len as usize);
                    let mut new = cur;
                    if new.len() < off + len {
                        new.resize(off + len, 0);
                    }
                    new[off..off + len].copy_from_slice(&data);
                    v.writes.push((key, Some(new)));
                }
            }
            StIns::Spld { dst, .. } => {
                let (len, err) = match slot(&key) {
                    Some(b) => (b.len() as u64, 0),
                    None => (0, 1),
                };
                if *dst != 0 {
                    v.regs.push((*dst, len));
                }
                v.regs.push((REG_ERR, err));
            }
        }
        if !v.admissible.is_empty() || v.only_out_of_gas {
            v.must_panic = true;
            v.regs.clear();
            v.mem.clear();
            v.writes.clear();
        }
        v
    }

    /// violations that can be told without knowing the executing contract (script context)
    fn operand_only_violations(&self, ins: &StIns, mem: &dyn MemView, v: &mut Verdict) {
        match ins {
            StIns::Swwq { src_ptr, count, .. } if *count > 0 => {
                if let Err(rs) = mem.read(*src_ptr, 32) {
                    v.admissible.extend(rs);
                }
            }
            StIns::Swr { src_ptr, len, .. } if *len > 0 => {
                if let Err(rs) = mem.read(*src_ptr, *len) {
                    v.admissible.extend(rs);
                }
                if *len > self.max_len {
                    v.admissible.insert(R::StorageOutOfBounds);
                }
            }
            StIns::Scwq { count, .. } | StIns::Sclr { count, .. } | StIns::Srwq { count, .. } => {
                if let Some(k) = v.key {
                    if *count > keys_until_wrap(&k) {
                        v.admissible.insert(R::TooManySlots);
                    }
                }
            }
            _ => {}
        }
    }
}

#[cfg(test)]
mod tests {
    use super::*;
    #[test]
    fn key_arith() {
        let mut k = [0xffu8; 32];
        assert_eq!(keys_until_wrap(&k), 1);
        assert_eq!(key_add(&k, 0), Some(k));
        assert_eq!(key_add(&k, 1), None);
        k[31] = 0xfd;
        assert_eq!(keys_until_wrap(&k), 3);
        assert!(key_add(&k, 2).is_some());
        assert!(key_add(&k, 3).is_none());
        assert_eq!(keys_until_wrap(&[0; 32]), u64::MAX);
    }
}
