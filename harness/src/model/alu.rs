//! model::alu — reference semantics of the FuelVM register ALU instructions, written from the
//! documented semantics (instruction-set specification, `Flags` docs and
//! `fuel-asm/src/args/narrowint.rs`) in exact integer arithmetic (u128 / search), not from the
//! interpreter's code:
//!
//! * `$of`/`$err` are cleared by every ALU instruction unless stated otherwise.
//! * ADD/ADDI, MUL/MULI: `$rA` = low 64 bits, `$of` = high 64 bits of the exact result.
//! * SUB/SUBI: `$rA` = (b − c) mod 2^64; on underflow `$of` is the high word of the 128-bit
//!   two's-complement result, i.e. all ones.
//! * EXP/EXPI: if b^c does not fit in 64 bits `$rA` = 0 and `$of` = 1.
//! * DIV/DIVI, MOD/MODI: divisor 0 is undefined: `$rA` = 0, `$err` = 1.
//! * MLOG: floor(log_c b); undefined for b = 0 or c ≤ 1. MROO: floor(b^(1/c)); undefined for c = 0.
//! * MLDV: (b·c)/d with a 128-bit intermediate; d = 0 means d = 2^64; `$of` = high 64 bits of the
//!   quotient.
//! * shifts by ≥ 64 give 0; comparisons give 0/1.
//! * NIOP: imm bits 0..3 = op (ADD 0, SUB 1, MUL 2, EXP 3, SLL 4, XNOR 5), bits 4..5 = width
//!   (8/16/32); any other value is an invalid immediate. Both operands are truncated to the width,
//!   the result is truncated to the width; `$of` behaves like the 64-bit counterpart relative to
//!   the narrow width (ADD/MUL: the bits above the width; SUB: all ones on underflow; EXP: 1 and
//!   result 0); SLL and XNOR never overflow.
//! * overflow (would set `$of` ≠ 0) panics with ArithmeticOverflow unless F_WRAPPING (2) is set;
//!   an undefined result (would set `$err`) panics with ArithmeticError unless F_UNSAFEMATH (1).

use serde::{Deserialize, Serialize};

pub const F_UNSAFEMATH: u64 = 0x01;
pub const F_WRAPPING: u64 = 0x02;

#[derive(Clone, Copy, Debug, PartialEq, Eq, Hash, Serialize, Deserialize)]
pub enum Op {
    Add,
    Sub,
    Mul,
    Div,
    Mod,
    Exp,
    Mlog,
    Mroo,
    Mldv,
    And,
    Or,
    Xor,
    Not,
    Sll,
    Srl,
    Eq,
    Gt,
    Lt,
    /// MOVE / MOVI: result = b
    Mov,
    /// NOOP: no destination
    Noop,
    /// narrow-int, `imm` raw 6-bit immediate
    Niop(u8),
}

#[derive(Clone, Copy, Debug, PartialEq, Eq, Hash)]
pub enum Panic {
    ArithmeticOverflow,
    ArithmeticError,
    InvalidImmediateValue,
}

#[derive(Clone, Copy, Debug, PartialEq, Eq, Hash)]
pub struct Regs {
    /// None: the instruction has no destination (NOOP)
    pub value: Option<u64>,
    pub of: u64,
    pub err: u64,
}

pub type Outcome = Result<Regs, Panic>;

/// what made the case interesting (for classification)
#[derive(Clone, Copy, Debug, PartialEq, Eq, Hash, Default)]
pub struct Traits {
    pub overflow: bool,
    pub undefined: bool,
    pub truncated_operand: bool,
    pub invalid_imm: bool,
}

const W64: u128 = 1u128 << 64;

/// exact b^c if it is < 2^128-ish bound `limit` (≤ u64::MAX + 1 … any limit < 2^127), else None
fn pow_within(b: u64, c: u64, limit: u128) -> Option<u128> {
    // result ≤ limit ?
    if c == 0 {
        return (1 <= limit).then_some(1);
    }
    if b <= 1 {
        return ((b as u128) <= limit).then_some(b as u128);
    }
    // b ≥ 2: at most 127 multiplications before exceeding any u128 limit
    let mut acc: u128 = 1;
    let mut i = 0u64;
    while i < c {
        // acc ≤ limit < 2^127 and b < 2^64: acc*b may exceed u128 only if acc ≥ 2^64
        acc = acc.checked_mul(b as u128)?;
        if acc > limit {
            return None;
        }
        i += 1;
    }
    Some(acc)
}

/// floor(log_c b) for b ≥ 1, c ≥ 2, by repeated division
fn ilog(b: u64, c: u64) -> u64 {
    let mut k = 0;
    let mut x = b;
    while x >= c {
        x /= c;
        k += 1;
    }
    k
}

/// floor(b^(1/c)) for c ≥ 1: the largest r with r^c ≤ b, by binary search
fn iroot(b: u64, c: u64) -> u64 {
    let (mut lo, mut hi) = (0u64, b); // invariant: lo^c ≤ b ; answer in [lo, hi]
    while lo < hi {
        let mid = lo + (hi - lo) / 2 + ((hi - lo) & 1); // upper middle, > lo
        if pow_within(mid, c, b as u128).is_some() {
            lo = mid;
        } else {
            hi = mid - 1;
        }
    }
    lo
}

fn finish(value: Option<u64>, of: u64, err: u64, flag: u64) -> Outcome {
    if of != 0 && flag & F_WRAPPING == 0 {
        return Err(Panic::ArithmeticOverflow);
    }
    if err != 0 && flag & F_UNSAFEMATH == 0 {
        return Err(Panic::ArithmeticError);
    }
    Ok(Regs { value, of, err })
}

pub fn narrow_width(imm: u8) -> Option<u32> {
    match (imm >> 4) & 3 {
        0 => Some(8),
        1 => Some(16),
        2 => Some(32),
        _ => None,
    }
}

/// Evaluate one ALU instruction on operand values `b`, `c`, `d` (`d` only for MLDV) under `$flag`.
pub fn eval(op: Op, b: u64, c: u64, d: u64, flag: u64) -> (Outcome, Traits) {
    let mut t = Traits::default();
    let (bb, cc) = (b as u128, c as u128);
    let wide = |r: u128| ((r % W64) as u64, (r / W64) as u64);
    let (value, of, err): (Option<u64>, u64, u64) = match op {
        Op::Add => {
            let (lo, hi) = wide(bb + cc);
            (Some(lo), hi, 0)
        }
        Op::Mul => {
            let (lo, hi) = wide(bb * cc);
            (Some(lo), hi, 0)
        }
        Op::Sub => {
            if c > b {
                // 2^128 + b - c, low and high words
                let r = (u128::MAX - cc) + 1 + bb;
                let (lo, hi) = wide(r);
                (Some(lo), hi, 0)
            } else {
                (Some(b - c), 0, 0)
            }
        }
        Op::Div => {
            if c == 0 {
                (Some(0), 0, 1)
            } else {
                (Some(b / c), 0, 0)
            }
        }
        Op::Mod => {
            if c == 0 {
                (Some(0), 0, 1)
            } else {
                (Some(b % c), 0, 0)
            }
        }
        Op::Exp => match pow_within(b, c, u64::MAX as u128) {
            Some(r) => (Some(r as u64), 0, 0),
            None => (Some(0), 1, 0),
        },
        Op::Mlog => {
            if b == 0 || c <= 1 {
                (Some(0), 0, 1)
            } else {
                (Some(ilog(b, c)), 0, 0)
            }
        }
        Op::Mroo => {
            if c == 0 {
                (Some(0), 0, 1)
            } else {
                (Some(iroot(b, c)), 0, 0)
            }
        }
        Op::Mldv => {
            let p = bb * cc;
            let q = if d == 0 { p >> 64 } else { p / d as u128 };
            let (lo, hi) = wide(q);
            (Some(lo), hi, 0)
        }
        Op::And => (Some(b & c), 0, 0),
        Op::Or => (Some(b | c), 0, 0),
        Op::Xor => (Some(b ^ c), 0, 0),
        Op::Not => (Some(u64::MAX - b), 0, 0),
        Op::Sll => (Some(if c >= 64 { 0 } else { ((bb << c) % W64) as u64 }), 0, 0),
        Op::Srl => (Some(if c >= 64 { 0 } else { b >> c }), 0, 0),
        Op::Eq => (Some((b == c) as u64), 0, 0),
        Op::Gt => (Some((b > c) as u64), 0, 0),
        Op::Lt => (Some((b < c) as u64), 0, 0),
        Op::Mov => (Some(b), 0, 0),
        Op::Noop => (None, 0, 0),
        Op::Niop(imm) => {
            let sel = imm & 0x0F;
            let Some(w) = narrow_width(imm) else {
                t.invalid_imm = true;
                return (Err(Panic::InvalidImmediateValue), t);
            };
            if sel > 5 || imm > 0x3F {
                t.invalid_imm = true;
                return (Err(Panic::InvalidImmediateValue), t);
            }
            let m: u128 = 1u128 << w; // modulus
            let (l, r) = (bb % m, cc % m);
            t.truncated_operand = (l != bb) || (r != cc);
            let (v, of): (u128, u64) = match sel {
                0 => {
                    let s = l + r;
                    (s % m, (s / m) as u64)
                }
                1 => {
                    if r > l {
                        ((m + l - r) % m, u64::MAX)
                    } else {
                        (l - r, 0)
                    }
                }
                2 => {
                    let p = l * r;
                    (p % m, (p / m) as u64)
                }
                3 => match pow_within(l as u64, r as u64, m - 1) {
                    Some(x) => (x, 0),
                    None => (0, 1),
                },
                4 => {
                    // l·2^r mod 2^w
                    if r >= w as u128 { (0, 0) } else { ((l << r) % m, 0) }
                }
                5 => ((m - 1) - (l ^ r), 0),
                _ => unreachable!(),
            };
            (Some(v as u64), of, 0)
        }
    };
    t.overflow = of != 0;
    t.undefined = err != 0;
    (finish(value, of, err, flag), t)
}

#[cfg(test)]
mod tests {
    use super::*;
    #[test]
    fn roots_and_logs() {
        assert_eq!(iroot(u64::MAX, 2), 4294967295);
        assert_eq!(iroot(4294967295u64 * 4294967295, 2), 4294967295);
        assert_eq!(iroot(4294967295u64 * 4294967295 - 1, 2), 4294967294);
        assert_eq!(iroot(27, 3), 3);
        assert_eq!(iroot(26, 3), 2);
        assert_eq!(iroot(u64::MAX, 64), 1);
        assert_eq!(iroot(u64::MAX, 63), 2);
        assert_eq!(iroot(0, 5), 0);
        assert_eq!(iroot(7, u64::MAX), 1);
        assert_eq!(ilog(8, 2), 3);
        assert_eq!(ilog(7, 2), 2);
        assert_eq!(ilog(u64::MAX, 2), 63);
        assert_eq!(ilog(1, 2), 0);
        assert_eq!(ilog(5, u64::MAX), 0);
    }
    #[test]
    fn sub_underflow() {
        let (o, _) = eval(Op::Sub, 0, 1, 0, F_WRAPPING);
        assert_eq!(o, Ok(Regs { value: Some(u64::MAX), of: u64::MAX, err: 0 }));
    }
}
