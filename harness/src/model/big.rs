//! model::big — fixed-limb 512-bit unsigned arithmetic and, on top of it, the reference
//! semantics of the FuelVM wide-integer instructions (WDCM … WQMM).
//!
//! Nothing here uses `ethnum` or `primitive-types` (the two bignum crates the interpreter uses);
//! the arithmetic is schoolbook on eight little-endian `u64` limbs: ripple add/sub, 8×8 limb
//! multiplication with `u128` partial products, shift by limb+bit, and restoring shift-subtract
//! division. All instruction operands are at most 256 bits, so every intermediate (`a·b`,
//! `a+b`) fits in 512 bits.
//!
//! Instruction semantics, from the instruction-set specification ("Wide integer" section) and
//! `fuel-asm/src/args/wideint.rs` (immediate encodings). `W` = 128 (WD*) or 256 (WQ*):
//!
//! * operands in memory are `W/8` bytes, big-endian; a *direct* operand is the 64-bit register
//!   value zero-extended to `W` bits;
//! * WxCM `$rA = cmp(MEM[$rB], rhs)`: imm bits 0..2 = mode (EQ 0, NE 1, LT 2, GT 3, LTE 4, GTE 5,
//!   LZC 6 = number of leading zeros of lhs within `W` bits, rhs discarded; 7 invalid), bits 3..4
//!   reserved (must be 0), bit 5 = rhs indirect. `$of`, `$err` cleared.
//! * WxOP `MEM[$rA] = op(MEM[$rB], rhs)`: imm bits 0..2 = op (ADD 0, SUB 1, NOT 2 (rhs
//!   discarded), OR 3, XOR 4, AND 5, SHL 6, SHR 7), bits 3..4 reserved, bit 5 = rhs indirect.
//!   Result modulo 2^W; `$of` = 1 iff ADD carried / SUB borrowed, else 0; shifting by ≥ W bits
//!   gives 0 (no overflow); `$err` cleared.
//! * WxML `MEM[$rA] = lhs · rhs mod 2^W`: imm bits 0..3 reserved, bit 4 = lhs indirect, bit 5 =
//!   rhs indirect; `$of` = 1 iff the product needs more than W bits; `$err` cleared.
//! * WxDV `MEM[$rA] = MEM[$rB] / rhs`: imm bits 0..4 reserved, bit 5 = rhs indirect; division by
//!   zero is an error (`$err` = 1, result 0); `$of` cleared.
//! * WxMD `MEM[$rA] = (MEM[$rB] · MEM[$rC]) / MEM[$rD]` with a 2W-bit product; divisor 0 means
//!   2^W; `$of` = 1 iff the quotient needs more than W bits (result = low W bits); `$err` cleared.
//! * WxAM `(MEM[$rB] + MEM[$rC]) mod MEM[$rD]`, WxMM `(MEM[$rB] · MEM[$rC]) mod MEM[$rD]`:
//!   modulus 0 is an error (`$err` = 1, result 0); `$of` cleared.
//! * an overflow panics with ArithmeticOverflow unless F_WRAPPING (2) is set in `$flag`; an error
//!   panics with ArithmeticError unless F_UNSAFEMATH (1) is set; an immediate with reserved bits
//!   or an undefined mode is InvalidImmediateValue.

use std::cmp::Ordering;

pub const LIMBS: usize = 8;

/// 512-bit unsigned integer, little-endian limbs.
#[derive(Clone, Copy, Debug, PartialEq, Eq, Hash, Default)]
pub struct U512(pub [u64; LIMBS]);

impl U512 {
    pub const ZERO: U512 = U512([0; LIMBS]);
    pub const ONE: U512 = U512([1, 0, 0, 0, 0, 0, 0, 0]);

    pub fn from_u64(x: u64) -> U512 {
        let mut l = [0u64; LIMBS];
        l[0] = x;
        U512(l)
    }

    pub fn from_u128(x: u128) -> U512 {
        let mut l = [0u64; LIMBS];
        l[0] = x as u64;
        l[1] = (x >> 64) as u64;
        U512(l)
    }

    /// big-endian bytes, at most 64
    pub fn from_be_bytes(b: &[u8]) -> U512 {
        assert!(b.len() <= 64);
        let mut l = [0u64; LIMBS];
        for (i, byte) in b.iter().rev().enumerate() {
            l[i / 8] |= (*byte as u64) << (8 * (i % 8));
        }
        U512(l)
    }

    /// the low `n` bytes, big-endian (n ≤ 64)
    pub fn to_be_bytes(&self, n: usize) -> Vec<u8> {
        assert!(n <= 64);
        let mut out = vec![0u8; n];
        for i in 0..n {
            out[n - 1 - i] = (self.0[i / 8] >> (8 * (i % 8))) as u8;
        }
        out
    }

    pub fn is_zero(&self) -> bool {
        self.0.iter().all(|l| *l == 0)
    }

    /// number of significant bits (0 for zero)
    pub fn bits(&self) -> u32 {
        for i in (0..LIMBS).rev() {
            if self.0[i] != 0 {
                return 64 * i as u32 + (64 - self.0[i].leading_zeros());
            }
        }
        0
    }

    pub fn bit(&self, i: u32) -> bool {
        (self.0[(i / 64) as usize] >> (i % 64)) & 1 == 1
    }

    /// 2^k, k < 512
    pub fn pow2(k: u32) -> U512 {
        let mut l = [0u64; LIMBS];
        l[(k / 64) as usize] = 1u64 << (k % 64);
        U512(l)
    }

    /// 2^k − 1, k ≤ 512
    pub fn mask(k: u32) -> U512 {
        let mut l = [0u64; LIMBS];
        for (i, limb) in l.iter_mut().enumerate() {
            let lo = 64 * i as u32;
            if k >= lo + 64 {
                *limb = u64::MAX;
            } else if k > lo {
                *limb = (1u64 << (k - lo)) - 1;
            }
        }
        U512(l)
    }

    /// (self + o) mod 2^512, carry out
    pub fn add(&self, o: &U512) -> (U512, bool) {
        let mut r = [0u64; LIMBS];
        let mut carry = 0u128;
        for i in 0..LIMBS {
            let s = self.0[i] as u128 + o.0[i] as u128 + carry;
            r[i] = s as u64;
            carry = s >> 64;
        }
        (U512(r), carry != 0)
    }

    /// (self − o) mod 2^512, borrow out
    pub fn sub(&self, o: &U512) -> (U512, bool) {
        let mut r = [0u64; LIMBS];
        let mut borrow = 0u128;
        for i in 0..LIMBS {
            let a = self.0[i] as u128;
            let b = o.0[i] as u128 + borrow;
            if a >= b {
                r[i] = (a - b) as u64;
                borrow = 0;
            } else {
                r[i] = ((1u128 << 64) + a - b) as u64;
                borrow = 1;
            }
        }
        (U512(r), borrow != 0)
    }

    /// (self · o) mod 2^512 and whether bits above 512 were lost
    pub fn mul(&self, o: &U512) -> (U512, bool) {
        let mut acc = [0u64; 2 * LIMBS];
        for i in 0..LIMBS {
            let mut carry = 0u128;
            for j in 0..LIMBS {
                let t = self.0[i] as u128 * o.0[j] as u128 + acc[i + j] as u128 + carry;
                acc[i + j] = t as u64;
                carry = t >> 64;
            }
            acc[i + LIMBS] = carry as u64;
        }
        let mut r = [0u64; LIMBS];
        r.copy_from_slice(&acc[..LIMBS]);
        (U512(r), acc[LIMBS..].iter().any(|l| *l != 0))
    }

    /// self · 2^k mod 2^512 (0 for k ≥ 512)
    pub fn shl(&self, k: u32) -> U512 {
        if k >= 512 {
            return U512::ZERO;
        }
        let (ls, bs) = ((k / 64) as usize, k % 64);
        let mut r = [0u64; LIMBS];
        for i in (ls..LIMBS).rev() {
            let lo = self.0[i - ls];
            r[i] = lo << bs;
            if bs != 0 && i > ls {
                r[i] |= self.0[i - ls - 1] >> (64 - bs);
            }
        }
        U512(r)
    }

    /// floor(self / 2^k) (0 for k ≥ 512)
    pub fn shr(&self, k: u32) -> U512 {
        if k >= 512 {
            return U512::ZERO;
        }
        let (ls, bs) = ((k / 64) as usize, k % 64);
        let mut r = [0u64; LIMBS];
        for i in 0..LIMBS - ls {
            r[i] = self.0[i + ls] >> bs;
            if bs != 0 && i + ls + 1 < LIMBS {
                r[i] |= self.0[i + ls + 1] << (64 - bs);
            }
        }
        U512(r)
    }

    pub fn and(&self, o: &U512) -> U512 {
        let mut r = [0u64; LIMBS];
        for i in 0..LIMBS {
            r[i] = self.0[i] & o.0[i];
        }
        U512(r)
    }

    pub fn or(&self, o: &U512) -> U512 {
        let mut r = [0u64; LIMBS];
        for i in 0..LIMBS {
            r[i] = self.0[i] | o.0[i];
        }
        U512(r)
    }

    pub fn xor(&self, o: &U512) -> U512 {
        let mut r = [0u64; LIMBS];
        for i in 0..LIMBS {
            r[i] = self.0[i] ^ o.0[i];
        }
        U512(r)
    }

    /// self mod 2^k
    pub fn low_bits(&self, k: u32) -> U512 {
        self.and(&U512::mask(k))
    }

    /// (quotient, remainder) by restoring shift-subtract division; `None` for divisor 0
    pub fn divrem(&self, d: &U512) -> Option<(U512, U512)> {
        if d.is_zero() {
            return None;
        }
        let mut q = U512::ZERO;
        let mut r = U512::ZERO;
        let n = self.bits();
        for i in (0..n).rev() {
            // r = 2r + bit i of self; r < d ≤ 2^512 − 1 before the step; 2r+1 may need 513 bits
            let top = r.bit(511);
            r = r.shl(1);
            if self.bit(i) {
                r.0[0] |= 1;
            }
            if top || r >= *d {
                r = r.sub(d).0;
                q.0[(i / 64) as usize] |= 1u64 << (i % 64);
            }
        }
        Some((q, r))
    }
}

impl PartialOrd for U512 {
    fn partial_cmp(&self, o: &U512) -> Option<Ordering> {
        Some(self.cmp(o))
    }
}

impl Ord for U512 {
    fn cmp(&self, o: &U512) -> Ordering {
        for i in (0..LIMBS).rev() {
            match self.0[i].cmp(&o.0[i]) {
                Ordering::Equal => {}
                x => return x,
            }
        }
        Ordering::Equal
    }
}

// ------------------------------------------------------------------ wide-integer instructions

pub const F_UNSAFEMATH: u64 = 0x01;
pub const F_WRAPPING: u64 = 0x02;

/// instruction family (the width is a separate parameter)
#[derive(Clone, Copy, Debug, PartialEq, Eq, Hash)]
pub enum Family {
    Cmp,
    Op,
    Mul,
    Div,
    MulDiv,
    AddMod,
    MulMod,
}

impl Family {
    pub fn has_imm(self) -> bool {
        matches!(self, Family::Cmp | Family::Op | Family::Mul | Family::Div)
    }
    /// the destination is a register (compare) rather than memory
    pub fn reg_dst(self) -> bool {
        self == Family::Cmp
    }
}

pub const CMP_NAMES: [&str; 7] = ["EQ", "NE", "LT", "GT", "LTE", "GTE", "LZC"];
pub const OP_NAMES: [&str; 8] = ["ADD", "SUB", "NOT", "OR", "XOR", "AND", "SHL", "SHR"];

/// decoded immediate of the four families that take one
#[derive(Clone, Copy, Debug, PartialEq, Eq, Hash)]
pub struct Mode {
    /// compare mode / math op (0 for Mul, Div)
    pub sel: u8,
    pub indirect_lhs: bool,
    pub indirect_rhs: bool,
    /// the operation does not look at rhs (NOT, LZC)
    pub discards_rhs: bool,
}

/// `None` = InvalidImmediateValue. Families without an immediate: lhs and rhs indirect.
pub fn decode(f: Family, imm: u8) -> Option<Mode> {
    if imm > 0x3F {
        return None;
    }
    let bit5 = imm & 0x20 != 0;
    let bit4 = imm & 0x10 != 0;
    match f {
        Family::Cmp => {
            let sel = imm & 0x07;
            if imm & 0x18 != 0 || sel > 6 {
                return None;
            }
            Some(Mode { sel, indirect_lhs: true, indirect_rhs: bit5, discards_rhs: sel == 6 })
        }
        Family::Op => {
            let sel = imm & 0x07;
            if imm & 0x18 != 0 {
                return None;
            }
            Some(Mode { sel, indirect_lhs: true, indirect_rhs: bit5, discards_rhs: sel == 2 })
        }
        Family::Mul => {
            if imm & 0x0F != 0 {
                return None;
            }
            Some(Mode { sel: 0, indirect_lhs: bit4, indirect_rhs: bit5, discards_rhs: false })
        }
        Family::Div => {
            if imm & 0x1F != 0 {
                return None;
            }
            Some(Mode { sel: 0, indirect_lhs: true, indirect_rhs: bit5, discards_rhs: false })
        }
        Family::MulDiv | Family::AddMod | Family::MulMod => Some(Mode { sel: 0, indirect_lhs: true, indirect_rhs: true, discards_rhs: false }),
    }
}

/// what made the case interesting
#[derive(Clone, Copy, Debug, PartialEq, Eq, Hash, Default)]
pub struct Traits {
    /// the exact result needs more than `W` bits (carry, borrow, product, quotient)
    pub overflow: bool,
    /// zero divisor or modulus
    pub undefined: bool,
    /// shift amount ≥ W
    pub big_shift: bool,
    /// fused multiply-divide with divisor 0 (≡ 2^W)
    pub divisor_is_pow: bool,
}

#[derive(Clone, Copy, Debug, PartialEq, Eq, Hash)]
pub enum Panic {
    ArithmeticOverflow,
    ArithmeticError,
}

/// result of the arithmetic: either the value (W-bit memory result, or the register result of a
/// compare in limb 0) with `$of`/`$err`, or the arithmetic panic
#[derive(Clone, Copy, Debug, PartialEq, Eq, Hash)]
pub struct Value {
    pub value: U512,
    pub of: u64,
    pub err: u64,
}

/// Evaluate on operand *values* (already loaded / zero-extended; `rhs` is ignored when the mode
/// discards it; `third` is the divisor / modulus of the four-register families).
pub fn eval(f: Family, w: u32, mode: Mode, lhs: &U512, rhs: &U512, third: &U512, flag: u64) -> (Result<Value, Panic>, Traits) {
    assert!(w == 128 || w == 256);
    debug_assert!(lhs.bits() <= w && rhs.bits() <= w && third.bits() <= w);
    let mut t = Traits::default();
    let b = |x: bool| U512::from_u64(x as u64);
    let (value, of, err): (U512, u64, u64) = match f {
        Family::Cmp => {
            let v = match mode.sel {
                0 => b(lhs == rhs),
                1 => b(lhs != rhs),
                2 => b(lhs < rhs),
                3 => b(lhs > rhs),
                4 => b(lhs <= rhs),
                5 => b(lhs >= rhs),
                6 => U512::from_u64((w - lhs.bits()) as u64),
                _ => unreachable!("decode() rejects mode 7"),
            };
            (v, 0, 0)
        }
        Family::Op => match mode.sel {
            0 => {
                let s = lhs.add(rhs).0;
                let of = s.bits() > w;
                (s.low_bits(w), of as u64, 0)
            }
            1 => {
                if rhs > lhs {
                    // 2^W + lhs − rhs
                    let s = U512::pow2(w).add(lhs).0.sub(rhs).0;
                    (s.low_bits(w), 1, 0)
                } else {
                    (lhs.sub(rhs).0, 0, 0)
                }
            }
            2 => (U512::mask(w).sub(lhs).0, 0, 0),
            3 => (lhs.or(rhs), 0, 0),
            4 => (lhs.xor(rhs), 0, 0),
            5 => (lhs.and(rhs), 0, 0),
            6 | 7 => {
                let big = *rhs >= U512::from_u64(w as u64);
                t.big_shift = big;
                if big {
                    (U512::ZERO, 0, 0)
                } else {
                    let k = rhs.0[0] as u32;
                    if mode.sel == 6 {
                        (lhs.shl(k).low_bits(w), 0, 0)
                    } else {
                        (lhs.shr(k), 0, 0)
                    }
                }
            }
            _ => unreachable!(),
        },
        Family::Mul => {
            let p = lhs.mul(rhs).0;
            ((p.low_bits(w)), (p.bits() > w) as u64, 0)
        }
        Family::Div => match lhs.divrem(rhs) {
            Some((q, _)) => (q, 0, 0),
            None => (U512::ZERO, 0, 1),
        },
        Family::MulDiv => {
            let p = lhs.mul(rhs).0;
            let q = if third.is_zero() {
                t.divisor_is_pow = true;
                p.shr(w)
            } else {
                p.divrem(third).expect("non-zero divisor").0
            };
            (q.low_bits(w), (q.bits() > w) as u64, 0)
        }
        Family::AddMod => match lhs.add(rhs).0.divrem(third) {
            Some((_, r)) => (r, 0, 0),
            None => (U512::ZERO, 0, 1),
        },
        Family::MulMod => match lhs.mul(rhs).0.divrem(third) {
            Some((_, r)) => (r, 0, 0),
            None => (U512::ZERO, 0, 1),
        },
    };
    t.overflow = of != 0;
    t.undefined = err != 0;
    let out = if of != 0 && flag & F_WRAPPING == 0 {
        Err(Panic::ArithmeticOverflow)
    } else if err != 0 && flag & F_UNSAFEMATH == 0 {
        Err(Panic::ArithmeticError)
    } else {
        Ok(Value { value, of, err })
    };
    (out, t)
}

#[cfg(test)]
mod tests {
    use super::*;

    fn splitmix(x: &mut u64) -> u64 {
        *x = x.wrapping_add(0x9E3779B97F4A7C15);
        let mut z = *x;
        z = (z ^ (z >> 30)).wrapping_mul(0xBF58476D1CE4E5B9);
        z = (z ^ (z >> 27)).wrapping_mul(0x94D049BB133111EB);
        z ^ (z >> 31)
    }

    fn rnd(s: &mut u64, bits: u32) -> U512 {
        let mut l = [0u64; LIMBS];
        for x in l.iter_mut() {
            *x = splitmix(s);
        }
        // vary the magnitude
        let k = (splitmix(s) % (bits as u64 + 1)) as u32;
        U512(l).low_bits(k)
    }

    #[test]
    fn against_native_u128() {
        let mut s = 7u64;
        for _ in 0..20000 {
            let a = (splitmix(&mut s) as u128) << 64 | splitmix(&mut s) as u128;
            let b = ((splitmix(&mut s) as u128) << 64 | splitmix(&mut s) as u128) >> (splitmix(&mut s) % 128);
            let (ua, ub) = (U512::from_u128(a), U512::from_u128(b));
            let (wa, ca) = a.overflowing_add(b);
            assert_eq!(ua.add(&ub).0.low_bits(128), U512::from_u128(wa));
            assert_eq!(ua.add(&ub).0.bits() > 128, ca);
            if a >= b {
                assert_eq!(ua.sub(&ub), (U512::from_u128(a - b), false));
            } else {
                assert!(ua.sub(&ub).1);
            }
            let (a64, b64) = (a as u64 as u128, b >> 64);
            assert_eq!(U512::from_u128(a64).mul(&U512::from_u128(b64)).0, U512::from_u128(a64 * b64));
            if b != 0 {
                assert_eq!(ua.divrem(&ub), Some((U512::from_u128(a / b), U512::from_u128(a % b))));
            }
            let k = (splitmix(&mut s) % 128) as u32;
            assert_eq!(ua.shl(k).low_bits(128), U512::from_u128(a << k));
            assert_eq!(ua.shr(k), U512::from_u128(a >> k));
            assert_eq!(ua.cmp(&ub), a.cmp(&b));
            assert_eq!(ua.bits(), 128 - a.leading_zeros());
            assert_eq!(U512::from_be_bytes(&a.to_be_bytes()), ua);
            assert_eq!(ua.to_be_bytes(16), a.to_be_bytes().to_vec());
        }
    }

    #[test]
    fn division_identity_512() {
        let mut s = 99u64;
        for _ in 0..5000 {
            let n = rnd(&mut s, 512);
            let d = rnd(&mut s, 512);
            if d.is_zero() {
                assert_eq!(n.divrem(&d), None);
                continue;
            }
            let (q, r) = n.divrem(&d).unwrap();
            assert!(r < d);
            let (p, lost) = q.mul(&d);
            assert!(!lost);
            let (back, carry) = p.add(&r);
            assert!(!carry);
            assert_eq!(back, n);
        }
    }

    #[test]
    fn mul_is_repeated_addition_and_shift() {
        let mut s = 5u64;
        for _ in 0..2000 {
            let a = rnd(&mut s, 256);
            let b = rnd(&mut s, 256);
            // shift-and-add product
            let mut acc = U512::ZERO;
            for i in 0..b.bits() {
                if b.bit(i) {
                    acc = acc.add(&a.shl(i)).0;
                }
            }
            assert_eq!(a.mul(&b), (acc, false));
            // (a·b) mod 2^512 loses bits exactly when bits(a)+bits(b) says so (coarse check)
            let big = U512::mask(512);
            assert!(big.mul(&big).1);
        }
        assert_eq!(U512::mask(512).add(&U512::ONE), (U512::ZERO, true));
        assert_eq!(U512::ZERO.sub(&U512::ONE), (U512::mask(512), true));
        assert_eq!(U512::pow2(511).shl(1), U512::ZERO);
        assert_eq!(U512::pow2(511).shr(511), U512::ONE);
        assert_eq!(U512::mask(0), U512::ZERO);
        assert_eq!(U512::mask(512).bits(), 512);
    }

    #[test]
    fn instruction_examples() {
        let m = decode(Family::Op, 0).unwrap();
        let max = U512::mask(128);
        let (r, t) = eval(Family::Op, 128, m, &max, &U512::ONE, &U512::ZERO, F_WRAPPING);
        assert_eq!(r, Ok(Value { value: U512::ZERO, of: 1, err: 0 }));
        assert!(t.overflow);
        let (r, _) = eval(Family::Op, 128, m, &max, &U512::ONE, &U512::ZERO, 0);
        assert_eq!(r, Err(Panic::ArithmeticOverflow));
        let sub = decode(Family::Op, 1).unwrap();
        let (r, _) = eval(Family::Op, 256, sub, &U512::ZERO, &U512::ONE, &U512::ZERO, F_WRAPPING);
        assert_eq!(r, Ok(Value { value: U512::mask(256), of: 1, err: 0 }));
        let lzc = decode(Family::Cmp, 6).unwrap();
        assert!(lzc.discards_rhs);
        let (r, _) = eval(Family::Cmp, 256, lzc, &U512::ZERO, &U512::ZERO, &U512::ZERO, 0);
        assert_eq!(r.unwrap().value, U512::from_u64(256));
        let (r, _) = eval(Family::Cmp, 128, lzc, &U512::pow2(127), &U512::ZERO, &U512::ZERO, 0);
        assert_eq!(r.unwrap().value, U512::ZERO);
        let md = decode(Family::MulDiv, 0).unwrap();
        let (r, t) = eval(Family::MulDiv, 128, md, &max, &max, &U512::ZERO, 0);
        // (2^128−1)^2 >> 128 = 2^128 − 2
        assert_eq!(r.unwrap().value, max.sub(&U512::ONE).0);
        assert!(t.divisor_is_pow);
        let (r, _) = eval(Family::MulDiv, 128, md, &max, &max, &U512::ONE, 0);
        assert_eq!(r, Err(Panic::ArithmeticOverflow));
        let (r, _) = eval(Family::AddMod, 128, md, &max, &max, &U512::ZERO, 0);
        assert_eq!(r, Err(Panic::ArithmeticError));
        let (r, _) = eval(Family::AddMod, 128, md, &max, &max, &U512::ZERO, F_UNSAFEMATH);
        assert_eq!(r, Ok(Value { value: U512::ZERO, of: 0, err: 1 }));
        let (r, _) = eval(Family::AddMod, 128, md, &max, &max, &max, 0);
        assert_eq!(r.unwrap().value, U512::ZERO);
        assert_eq!(decode(Family::Cmp, 7), None);
        assert_eq!(decode(Family::Cmp, 8), None);
        assert_eq!(decode(Family::Op, 0x10), None);
        assert_eq!(decode(Family::Mul, 1), None);
        assert_eq!(decode(Family::Div, 0x10), None);
        assert!(decode(Family::Mul, 0x30).unwrap().indirect_lhs);
        assert!(!decode(Family::Mul, 0x20).unwrap().indirect_lhs);
    }
}
