//! `model::flatmem` — the reference model of VM memory (DESIGN.md Appendix D; C23, C24, C36).
//!
//! A flat, zero-initialised byte array of 64 MiB with two marks: `stack_len` (the highest stack
//! extent not yet overtaken by the heap) and `hp` (the heap pointer). Written from the property
//! statement and Appendix D only; it never calls, and does not mirror the layout of, the code
//! under test (one sparse map instead of two buffers, no over-allocation, no change lists).
use std::collections::BTreeMap;

pub const MEM_SIZE: usize = 1 << 26;
pub const MEM_SIZE_W: u64 = 1 << 26;

/// Refusal reasons of the memory operations (names follow `fuel_asm::PanicReason`).
#[derive(Clone, Copy, Debug, PartialEq, Eq, PartialOrd, Ord)]
pub enum MemErr {
    /// `MemoryOverflow`
    Overflow,
    /// `UninitalizedMemoryAccess`
    Uninit,
    /// `MemoryGrowthOverlap`
    GrowthOverlap,
    /// `MemoryWriteOverlap`
    WriteOverlap,
    /// `MemoryOwnership`
    Ownership,
}

static ZERO_PAGE: [u8; 4096] = [0u8; 4096];

/// position of the first non-zero byte (page-wise `memcmp`, so 64 MiB scans stay cheap even with
/// debug assertions on)
pub fn first_nonzero(s: &[u8]) -> Option<usize> {
    let mut off = 0usize;
    for chunk in s.chunks(4096) {
        if chunk != &ZERO_PAGE[..chunk.len()] {
            return chunk.iter().position(|b| *b != 0).map(|p| off + p);
        }
        off += chunk.len();
    }
    None
}

/// Registers that decide ownership of a destination range.
#[derive(Clone, Copy, Debug, PartialEq, Eq)]
pub struct Owner {
    pub ssp: u64,
    pub sp: u64,
    pub hp: u64,
    pub prev_hp: u64,
}

/// Ownership answer. (Ownership of *empty* ranges is a convention of the implementation that the
/// C23 statement does not talk about; callers there skip such operations.)
#[derive(Clone, Copy, Debug, PartialEq, Eq)]
pub enum Owned {
    Yes,
    No,
}

impl Owner {
    /// Appendix D: `ssp <= start < sp && end <= sp` (empty range owned iff `start == ssp` or it
    /// satisfies the first formula), or `start >= hp && hp != prev_hp && end <= prev_hp`
    /// (empty iff `start == hp`).
    pub fn owns(&self, start: u64, len: u64) -> Owned {
        let Some(end) = start.checked_add(len) else { return Owned::No };
        let stack = (self.ssp <= start && start < self.sp && end <= self.sp) || (len == 0 && start == self.ssp);
        let heap = (start >= self.hp && self.hp != self.prev_hp && end <= self.prev_hp) || (len == 0 && start == self.hp);
        if stack || heap { Owned::Yes } else { Owned::No }
    }
}

#[derive(Clone, Debug, PartialEq, Eq)]
pub struct FlatMem {
    /// non-zero bytes only (absent = 0)
    bytes: BTreeMap<usize, u8>,
    pub stack_len: usize,
    pub hp: usize,
}

impl Default for FlatMem {
    fn default() -> Self {
        Self::new()
    }
}

impl FlatMem {
    pub fn new() -> Self {
        FlatMem { bytes: BTreeMap::new(), stack_len: 0, hp: MEM_SIZE }
    }

    /// Everything zero, nothing allocated.
    pub fn reset(&mut self) {
        self.bytes.clear();
        self.stack_len = 0;
        self.hp = MEM_SIZE;
    }

    /// `Ok((start, len))` when the range is accessible.
    pub fn accessible(&self, a: u64, n: u64) -> Result<(usize, usize), MemErr> {
        if a > MEM_SIZE_W || n > MEM_SIZE_W {
            return Err(MemErr::Overflow);
        }
        let end = a + n;
        if end > MEM_SIZE_W {
            return Err(MemErr::Overflow);
        }
        let (a, n, end) = (a as usize, n as usize, end as usize);
        if end <= self.stack_len || a >= self.hp {
            Ok((a, n))
        } else {
            Err(MemErr::Uninit)
        }
    }

    /// Empty range strictly inside the unallocated gap: "lies entirely below/above" is vacuous
    /// for it, the statement does not decide it.
    pub fn is_empty_in_gap(&self, a: u64, n: u64) -> bool {
        n == 0 && a > self.stack_len as u64 && a < self.hp as u64
    }

    pub fn grow_stack(&mut self, s: u64) -> Result<(), MemErr> {
        if s > MEM_SIZE_W {
            return Err(MemErr::Overflow);
        }
        let s = s as usize;
        if s > self.stack_len {
            if s > self.hp {
                return Err(MemErr::GrowthOverlap);
            }
            // model invariant: the gap holds no non-zero byte, so the new bytes read as zero
            debug_assert!(self.gap_is_zero());
            self.stack_len = s;
        }
        Ok(())
    }

    pub fn gap_is_zero(&self) -> bool {
        self.stack_len >= self.hp || self.bytes.range(self.stack_len..self.hp).next().is_none()
    }

    pub fn grow_heap_by(&mut self, sp: u64, n: u64) -> Result<(), MemErr> {
        if n > self.hp as u64 {
            return Err(MemErr::Overflow);
        }
        let new_hp = self.hp - n as usize;
        if (new_hp as u64) < sp {
            return Err(MemErr::GrowthOverlap);
        }
        self.zero(new_hp, self.hp);
        self.hp = new_hp;
        self.stack_len = self.stack_len.min(new_hp);
        Ok(())
    }

    fn zero(&mut self, lo: usize, hi: usize) {
        if lo >= hi {
            return;
        }
        let keys: Vec<usize> = self.bytes.range(lo..hi).map(|(k, _)| *k).collect();
        for k in keys {
            self.bytes.remove(&k);
        }
    }

    pub fn get(&self, a: usize) -> u8 {
        self.bytes.get(&a).copied().unwrap_or(0)
    }

    /// Raw read without access check (used for oracles over already-verified ranges).
    pub fn peek(&self, a: usize, n: usize) -> Vec<u8> {
        let mut v = vec![0u8; n];
        for (k, b) in self.bytes.range(a..a + n) {
            v[*k - a] = *b;
        }
        v
    }

    /// Raw write without access check.
    pub fn poke(&mut self, a: usize, data: &[u8]) {
        for (i, b) in data.iter().enumerate() {
            if *b == 0 {
                self.bytes.remove(&(a + i));
            } else {
                self.bytes.insert(a + i, *b);
            }
        }
    }

    pub fn read(&self, a: u64, n: u64) -> Result<Vec<u8>, MemErr> {
        let (a, n) = self.accessible(a, n)?;
        Ok(self.peek(a, n))
    }

    pub fn write(&mut self, a: u64, data: &[u8]) -> Result<(), MemErr> {
        let (a, _) = self.accessible(a, data.len() as u64)?;
        self.poke(a, data);
        Ok(())
    }

    /// All conditions an owner-checked write of `n` bytes at `a` violates (empty = must succeed).
    pub fn write_owned_violations(&self, owner: &Owner, a: u64, n: u64) -> Vec<MemErr> {
        let mut v = vec![];
        if let Err(e) = self.accessible(a, n) {
            v.push(e);
        }
        if owner.owns(a, n) == Owned::No {
            v.push(MemErr::Ownership);
        }
        v
    }

    /// do two equally long ranges share a byte?
    pub fn share_a_byte(dst: u64, src: u64, n: u64) -> bool {
        n > 0 && dst.abs_diff(src) < n
    }

    /// All conditions `memcopy(dst, src, n, owner)` violates (empty = must succeed).
    pub fn memcopy_violations(&self, owner: &Owner, dst: u64, src: u64, n: u64) -> Vec<MemErr> {
        let mut v = vec![];
        let d = self.accessible(dst, n);
        let s = self.accessible(src, n);
        if let Err(e) = d {
            v.push(e);
        }
        if let Err(e) = s {
            if !v.contains(&e) {
                v.push(e);
            }
        }
        if Self::share_a_byte(dst, src, n) {
            v.push(MemErr::WriteOverlap);
        }
        if owner.owns(dst, n) == Owned::No {
            v.push(MemErr::Ownership);
        }
        v
    }

    /// Perform the copy (caller established that there is no violation).
    pub fn memcopy_apply(&mut self, dst: u64, src: u64, n: u64) {
        let data = self.peek(src as usize, n as usize);
        self.poke(dst as usize, &data);
    }

    /// Non-zero bytes inside `[lo, hi)` in address order.
    pub fn nonzero_in(&self, lo: usize, hi: usize) -> impl Iterator<Item = (usize, u8)> + '_ {
        self.bytes.range(lo..hi.max(lo)).map(|(k, b)| (*k, *b))
    }

    /// Compare a contiguous slice of the implementation (`got` = bytes of `[lo, lo+got.len())`)
    /// with the model; returns the first differing address.
    pub fn diff_slice(&self, lo: usize, got: &[u8]) -> Option<(usize, u8, u8)> {
        let hi = lo + got.len();
        let mut want = self.nonzero_in(lo, hi).peekable();
        // fast path over zero chunks
        let mut off = 0usize;
        for chunk in got.chunks(4096) {
            let base = lo + off;
            let end = base + chunk.len();
            let model_has = want.peek().map(|(k, _)| *k < end).unwrap_or(false);
            if model_has || chunk != &ZERO_PAGE[..chunk.len()] {
                for (i, b) in chunk.iter().enumerate() {
                    let addr = base + i;
                    let w = match want.peek() {
                        Some((k, v)) if *k == addr => {
                            let v = *v;
                            want.next();
                            v
                        }
                        _ => 0,
                    };
                    if *b != w {
                        return Some((addr, *b, w));
                    }
                }
            }
            off += chunk.len();
        }
        None
    }
}

#[cfg(test)]
mod tests {
    use super::*;

    #[test]
    fn basics() {
        let mut m = FlatMem::new();
        assert_eq!(m.accessible(0, 0), Ok((0, 0)));
        assert_eq!(m.accessible(0, 1), Err(MemErr::Uninit));
        assert_eq!(m.accessible(MEM_SIZE_W, 0), Ok((MEM_SIZE, 0)));
        assert_eq!(m.accessible(MEM_SIZE_W, 1), Err(MemErr::Overflow));
        m.grow_stack(16).unwrap();
        m.write(8, &[1, 2, 3]).unwrap();
        m.grow_heap_by(0, (MEM_SIZE - 10) as u64).unwrap();
        assert_eq!(m.stack_len, 10);
        assert_eq!(m.read(8, 2).unwrap(), vec![1, 2]);
        assert_eq!(m.read(10, 1).unwrap(), vec![0]);
        assert!(m.gap_is_zero());
    }
}
