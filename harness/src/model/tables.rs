//! model::tables — reference state machine for C35: contract deployment, blob creation, bytecode
//! upload and consensus-parameter / state-transition upgrades (DESIGN.md §3 C35).
//!
//! Written from the property statement, not from the interpreter: ids are opaque 32-byte names,
//! payloads are opaque values `P`, every operation returns what the statement prescribes
//! (`Ok` or the admissible panic reasons) and mutates the tables only when it succeeds.

use std::collections::BTreeMap;

pub type Id = [u8; 32];

/// panic reasons the statement speaks about (mapped to `fuel_asm::PanicReason` by the property)
#[derive(Debug, Clone, Copy, PartialEq, Eq, PartialOrd, Ord, Hash)]
pub enum Reason {
    ContractIdAlreadyDeployed,
    BlobIdAlreadyUploaded,
    BytecodeAlreadyUploaded,
    ThePartIsNotSequentiallyConnected,
    OverridingConsensusParameters,
    OverridingStateTransactionBytecode,
    UnknownStateTransactionBytecodeRoot,
}

/// expected result of one operation: success, or failure with one of the admissible reasons
/// (more than one when two failure conditions hold and their order is unspecified)
#[derive(Debug, Clone, PartialEq, Eq)]
pub enum Expect {
    Ok,
    Panic(Vec<Reason>),
}

/// upload progress of one bytecode root
#[derive(Debug, Clone, PartialEq, Eq)]
pub enum Upload {
    /// the first `n` subsections arrived, `bytes` is their concatenation
    Uncompleted { bytes: Vec<u8>, n: u16 },
    Completed(Vec<u8>),
}

/// one transaction (or block-producer action) of the history
#[derive(Debug, Clone, PartialEq, Eq)]
pub enum Op<P> {
    Deploy { id: Id, code: Vec<u8>, slots: Vec<(Id, Vec<u8>)> },
    Blob { id: Id, data: Vec<u8> },
    /// subsection `idx` of `total` of the bytecode with Merkle root `root`
    Upload { root: Id, idx: u16, total: u16, part: Vec<u8> },
    UpgradeConsensus { params: P },
    UpgradeState { root: Id },
    /// the block producer makes version `current + 1` the current one
    BumpConsensus,
    BumpState,
}

#[derive(Debug, Clone, PartialEq, Eq)]
pub struct Tables<P> {
    pub contracts: BTreeMap<Id, Vec<u8>>,
    pub slots: BTreeMap<(Id, Id), Vec<u8>>,
    pub blobs: BTreeMap<Id, Vec<u8>>,
    pub uploads: BTreeMap<Id, Upload>,
    pub consensus_versions: BTreeMap<u32, P>,
    pub state_versions: BTreeMap<u32, Id>,
    pub consensus_version: u32,
    pub state_version: u32,
}

impl<P: Clone> Tables<P> {
    pub fn new(consensus_version: u32, state_version: u32) -> Self {
        Tables {
            contracts: BTreeMap::new(),
            slots: BTreeMap::new(),
            blobs: BTreeMap::new(),
            uploads: BTreeMap::new(),
            consensus_versions: BTreeMap::new(),
            state_versions: BTreeMap::new(),
            consensus_version,
            state_version,
        }
    }

    /// index of the subsection the statement accepts next for `root` (None once complete)
    pub fn next_index(&self, root: &Id) -> Option<u16> {
        match self.uploads.get(root) {
            None => Some(0),
            Some(Upload::Uncompleted { n, .. }) => Some(*n),
            Some(Upload::Completed(_)) => None,
        }
    }

    pub fn is_complete(&self, root: &Id) -> bool {
        matches!(self.uploads.get(root), Some(Upload::Completed(_)))
    }

    /// Apply one operation. Failing operations leave `self` untouched.
    pub fn step(&mut self, op: &Op<P>) -> Expect {
        match op {
            Op::Deploy { id, code, slots } => {
                // a contract id can be created only once
                if self.contracts.contains_key(id) {
                    return Expect::Panic(vec![Reason::ContractIdAlreadyDeployed]);
                }
                self.contracts.insert(*id, code.clone());
                for (k, v) in slots {
                    self.slots.insert((*id, *k), v.clone());
                }
                Expect::Ok
            }
            Op::Blob { id, data } => {
                if self.blobs.contains_key(id) {
                    return Expect::Panic(vec![Reason::BlobIdAlreadyUploaded]);
                }
                self.blobs.insert(*id, data.clone());
                Expect::Ok
            }
            Op::Upload { root, idx, total, part } => {
                let (mut bytes, n) = match self.uploads.get(root) {
                    Some(Upload::Completed(_)) => return Expect::Panic(vec![Reason::BytecodeAlreadyUploaded]),
                    Some(Upload::Uncompleted { bytes, n }) => (bytes.clone(), *n),
                    None => (vec![], 0),
                };
                // only the consecutive subsection is accepted
                if *idx != n {
                    return Expect::Panic(vec![Reason::ThePartIsNotSequentiallyConnected]);
                }
                bytes.extend_from_slice(part);
                let n = n + 1;
                // complete exactly when the last subsection arrived
                let v = if n == *total { Upload::Completed(bytes) } else { Upload::Uncompleted { bytes, n } };
                self.uploads.insert(*root, v);
                Expect::Ok
            }
            Op::UpgradeConsensus { params } => {
                let next = self.consensus_version + 1;
                if self.consensus_versions.contains_key(&next) {
                    return Expect::Panic(vec![Reason::OverridingConsensusParameters]);
                }
                self.consensus_versions.insert(next, params.clone());
                Expect::Ok
            }
            Op::UpgradeState { root } => {
                let next = self.state_version + 1;
                let mut why = vec![];
                if !self.is_complete(root) {
                    why.push(Reason::UnknownStateTransactionBytecodeRoot);
                }
                if self.state_versions.contains_key(&next) {
                    why.push(Reason::OverridingStateTransactionBytecode);
                }
                if !why.is_empty() {
                    return Expect::Panic(why);
                }
                self.state_versions.insert(next, *root);
                Expect::Ok
            }
            Op::BumpConsensus => {
                self.consensus_version += 1;
                Expect::Ok
            }
            Op::BumpState => {
                self.state_version += 1;
                Expect::Ok
            }
        }
    }
}

#[cfg(test)]
mod tests {
    use super::*;
    #[test]
    fn upload_order() {
        let mut t: Tables<u8> = Tables::new(0, 0);
        let r = [1u8; 32];
        assert_eq!(t.step(&Op::Upload { root: r, idx: 1, total: 2, part: vec![1] }), Expect::Panic(vec![Reason::ThePartIsNotSequentiallyConnected]));
        assert_eq!(t.step(&Op::Upload { root: r, idx: 0, total: 2, part: vec![1] }), Expect::Ok);
        assert_eq!(t.step(&Op::UpgradeState { root: r }), Expect::Panic(vec![Reason::UnknownStateTransactionBytecodeRoot]));
        assert_eq!(t.step(&Op::Upload { root: r, idx: 1, total: 2, part: vec![2] }), Expect::Ok);
        assert_eq!(t.uploads[&r], Upload::Completed(vec![1, 2]));
        assert_eq!(t.step(&Op::UpgradeState { root: r }), Expect::Ok);
        assert_eq!(t.step(&Op::UpgradeState { root: r }), Expect::Panic(vec![Reason::OverridingStateTransactionBytecode]));
    }
}
