pub mod rfc6962;
