pub mod rfc6962;
pub mod alu;
pub mod isa;
pub mod smt;
pub mod fee;
pub mod validity;
pub mod flatmem;
pub mod big;
