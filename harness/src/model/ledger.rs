//! Reference asset ledger (C27, C28): a mirror of free balances and contract balances that is
//! driven only by the transaction description and by *receipts*, plus the per-asset
//! conservation equation in exact integers (u128).  Nothing in here calls the VM.
//!
//! Terminology: a *holder* is either the transaction's free balance (`Holder::Free`, what the
//! script spends) or a contract.  A *movement* is what one receipt claims happened.

use sha2::{Digest, Sha256};
use std::collections::{BTreeMap, BTreeSet};

pub type Id = [u8; 32];
pub const ZERO: Id = [0u8; 32];

/// `sha256(contract_id ‖ sub_id)` — the asset a contract mints / burns under `sub_id`
pub fn minted_asset(contract: &Id, sub_id: &Id) -> Id {
    let mut h = Sha256::new();
    h.update(contract);
    h.update(sub_id);
    h.finalize().into()
}

#[derive(Debug, Clone, Copy, PartialEq, Eq, PartialOrd, Ord, Hash)]
pub enum Holder {
    Free,
    Contract(Id),
}

impl Holder {
    /// receipts name the script context with the zero contract id
    pub fn from_receipt_id(id: &Id) -> Holder {
        if *id == ZERO { Holder::Free } else { Holder::Contract(*id) }
    }
}

/// What one receipt claims.
#[derive(Debug, Clone, PartialEq, Eq)]
pub enum Movement {
    /// TR: `from` → contract `to`
    Transfer { from: Holder, to: Id, asset: Id, amount: u64 },
    /// CALL forwarding coins: `from` → contract `to`
    Forward { from: Holder, to: Id, asset: Id, amount: u64 },
    /// TRO: `from` → a variable output
    TransferOut { from: Holder, asset: Id, amount: u64 },
    /// SMO: `from` → an outgoing message (base asset)
    MessageOut { from: Holder, amount: u64 },
    Mint { contract: Id, asset: Id, amount: u64 },
    Burn { contract: Id, asset: Id, amount: u64 },
}

/// The transaction as the ledger sees it (amounts per asset).
#[derive(Debug, Clone, Default)]
pub struct TxFunds {
    pub base: Id,
    /// coin inputs and message-coin inputs (always spendable)
    pub spendable: BTreeMap<Id, u128>,
    /// message inputs carrying data (base asset; spendable only by a successful script)
    pub retryable: u128,
    pub coin_outputs: BTreeMap<Id, u128>,
    pub max_fee: u64,
}

impl TxFunds {
    /// free balance the script starts with: inputs − coin outputs − fee limit (base) [+ message-data amounts]
    pub fn initial_free(&self, asset: &Id, with_retryable: bool) -> Option<u128> {
        let mut v = *self.spendable.get(asset).unwrap_or(&0);
        if *asset == self.base {
            v = v.checked_sub(self.max_fee as u128)?;
            if with_retryable {
                v += self.retryable;
            }
        }
        v.checked_sub(*self.coin_outputs.get(asset).unwrap_or(&0))
    }
    /// assets the VM tracks a free balance for: every input asset, and always the base asset
    pub fn tracked_assets(&self) -> BTreeSet<Id> {
        let mut s: BTreeSet<Id> = self.spendable.keys().copied().collect();
        s.insert(self.base);
        s
    }
}

/// Mirror of all balances, updated from receipts in order.
#[derive(Debug, Clone, Default)]
pub struct Mirror {
    pub base: Id,
    /// free balances of the tracked assets
    pub free: BTreeMap<Id, u128>,
    /// contract balances; a pair is present once it has been loaded (`load`) or touched
    pub contracts: BTreeMap<(Id, Id), u128>,
    pub minted: BTreeMap<Id, u128>,
    pub burned: BTreeMap<Id, u128>,
    pub variable_out: BTreeMap<Id, u128>,
    pub message_out: u128,
    /// assets with a non-zero movement
    pub moved_assets: BTreeSet<Id>,
    pub movements: u64,
}

#[derive(Debug, Clone, PartialEq, Eq)]
pub enum LedgerError {
    /// the holder named by the receipt cannot afford the amount
    Underflow { holder: Holder, asset: Id, have: u128, amount: u64 },
    /// contract balances are 64-bit words
    Overflow { contract: Id, asset: Id },
    /// a pair was used before its initial balance was loaded (harness bug)
    NotLoaded { contract: Id, asset: Id },
}

impl Mirror {
    pub fn new(funds: &TxFunds) -> Option<Mirror> {
        let mut m = Mirror { base: funds.base, ..Default::default() };
        for a in funds.tracked_assets() {
            m.free.insert(a, funds.initial_free(&a, true)?);
        }
        Some(m)
    }
    pub fn is_loaded(&self, contract: &Id, asset: &Id) -> bool {
        self.contracts.contains_key(&(*contract, *asset))
    }
    /// set the initial balance of a pair (from the storage *before* the transaction)
    pub fn load(&mut self, contract: &Id, asset: &Id, initial: u64) {
        self.contracts.entry((*contract, *asset)).or_insert(initial as u128);
    }
    pub fn free_of(&self, asset: &Id) -> Option<u128> {
        self.free.get(asset).copied()
    }
    pub fn contract_of(&self, contract: &Id, asset: &Id) -> Option<u128> {
        self.contracts.get(&(*contract, *asset)).copied()
    }
    /// (holder, asset) pairs a movement reads or writes — load them before `apply`
    pub fn pairs_of(&self, m: &Movement) -> Vec<(Id, Id)> {
        let base = self.base;
        let h = |h: &Holder, a: &Id| match h {
            Holder::Contract(c) => vec![(*c, *a)],
            Holder::Free => vec![],
        };
        match m {
            Movement::Transfer { from, to, asset, .. } | Movement::Forward { from, to, asset, .. } => {
                let mut v = h(from, asset);
                v.push((*to, *asset));
                v
            }
            Movement::TransferOut { from, asset, .. } => h(from, asset),
            Movement::MessageOut { from, .. } => h(from, &base),
            Movement::Mint { contract, asset, .. } | Movement::Burn { contract, asset, .. } => vec![(*contract, *asset)],
        }
    }
    fn debit(&mut self, holder: &Holder, asset: &Id, amount: u64) -> Result<(), LedgerError> {
        if amount == 0 {
            return Ok(());
        }
        let slot = match holder {
            // an asset without inputs has no free balance at all
            Holder::Free => self.free.get_mut(asset),
            Holder::Contract(c) => Some(self.contracts.get_mut(&(*c, *asset)).ok_or(LedgerError::NotLoaded { contract: *c, asset: *asset })?),
        };
        let have = slot.as_ref().map(|v| **v).unwrap_or(0);
        match slot {
            Some(v) if *v >= amount as u128 => {
                *v -= amount as u128;
                Ok(())
            }
            _ => Err(LedgerError::Underflow { holder: *holder, asset: *asset, have, amount }),
        }
    }
    fn credit(&mut self, contract: &Id, asset: &Id, amount: u64) -> Result<(), LedgerError> {
        let v = self.contracts.get_mut(&(*contract, *asset)).ok_or(LedgerError::NotLoaded { contract: *contract, asset: *asset })?;
        *v += amount as u128;
        if *v > u64::MAX as u128 {
            return Err(LedgerError::Overflow { contract: *contract, asset: *asset });
        }
        Ok(())
    }
    /// apply one movement; the pairs of `pairs_of` must be loaded
    pub fn apply(&mut self, m: &Movement) -> Result<(), LedgerError> {
        self.movements += 1;
        let (asset, amount) = match m {
            Movement::Transfer { from, to, asset, amount } | Movement::Forward { from, to, asset, amount } => {
                self.debit(from, asset, *amount)?;
                self.credit(to, asset, *amount)?;
                (*asset, *amount)
            }
            Movement::TransferOut { from, asset, amount } => {
                self.debit(from, asset, *amount)?;
                *self.variable_out.entry(*asset).or_insert(0) += *amount as u128;
                (*asset, *amount)
            }
            Movement::MessageOut { from, amount } => {
                let base = self.base;
                self.debit(from, &base, *amount)?;
                self.message_out += *amount as u128;
                (base, *amount)
            }
            Movement::Mint { contract, asset, amount } => {
                self.credit(contract, asset, *amount)?;
                *self.minted.entry(*asset).or_insert(0) += *amount as u128;
                (*asset, *amount)
            }
            Movement::Burn { contract, asset, amount } => {
                self.debit(&Holder::Contract(*contract), asset, *amount)?;
                *self.burned.entry(*asset).or_insert(0) += *amount as u128;
                (*asset, *amount)
            }
        };
        if amount > 0 {
            self.moved_assets.insert(asset);
        }
        Ok(())
    }
}

/// One side-by-side statement of the conservation equation for one asset.
#[derive(Debug, Clone, Default, PartialEq, Eq)]
pub struct Equation {
    // sources
    pub inputs: u128,
    pub contracts_before: u128,
    pub minted: u128,
    // sinks
    pub coin_outputs: u128,
    pub change: u128,
    pub variable_outputs: u128,
    pub contracts_after: u128,
    pub burned: u128,
    /// balance left over for an asset that has no change output
    pub unclaimed: u128,
    /// base asset only
    pub fee_charged: u128,
    /// base asset only
    pub messages_out: u128,
}

impl Equation {
    pub fn sources(&self) -> u128 {
        self.inputs + self.contracts_before + self.minted
    }
    pub fn sinks(&self) -> u128 {
        self.coin_outputs + self.change + self.variable_outputs + self.contracts_after + self.burned + self.unclaimed + self.fee_charged + self.messages_out
    }
    pub fn holds(&self) -> bool {
        self.sources() == self.sinks()
    }
}

#[cfg(test)]
mod tests {
    use super::*;
    #[test]
    fn mirror_basic() {
        let base = ZERO;
        let mut f = TxFunds { base, max_fee: 10, ..Default::default() };
        f.spendable.insert(base, 100);
        f.retryable = 5;
        f.coin_outputs.insert(base, 20);
        assert_eq!(f.initial_free(&base, true), Some(75));
        assert_eq!(f.initial_free(&base, false), Some(70));
        let mut m = Mirror::new(&f).unwrap();
        let c = [7u8; 32];
        m.load(&c, &base, 3);
        m.apply(&Movement::Transfer { from: Holder::Free, to: c, asset: base, amount: 70 }).unwrap();
        assert_eq!(m.free_of(&base), Some(5));
        assert_eq!(m.contract_of(&c, &base), Some(73));
        assert!(m.apply(&Movement::MessageOut { from: Holder::Free, amount: 6 }).is_err());
        let a = minted_asset(&c, &ZERO);
        m.load(&c, &a, 0);
        m.apply(&Movement::Mint { contract: c, asset: a, amount: 9 }).unwrap();
        m.apply(&Movement::Burn { contract: c, asset: a, amount: 4 }).unwrap();
        assert_eq!(m.contract_of(&c, &a), Some(5));
    }
}
