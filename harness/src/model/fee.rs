//! Reference fee / refund arithmetic (C18), written from the property statement in exact
//! integers (u128 is wide enough: gas·price < 2^128 and + tip cannot overflow either).

/// ceil(gas · price / factor); `factor >= 1`
pub fn gas_to_fee(gas: u64, price: u64, factor: u64) -> u128 {
    assert!(factor >= 1, "gas price factor 0 is outside the property");
    let total = gas as u128 * price as u128;
    let f = factor as u128;
    total / f + u128::from(total % f != 0)
}

/// floor(gas · price / factor) — only to classify cases where the ceiling matters
pub fn gas_to_fee_floor(gas: u64, price: u64, factor: u64) -> u128 {
    gas as u128 * price as u128 / factor as u128
}

/// fee for `gas`: ceiling + tip
pub fn fee(gas: u64, price: u64, factor: u64, tip: u64) -> u128 {
    gas_to_fee(gas, price, factor) + tip as u128
}

/// Refund on the sound domain `min_gas + used <= u64::MAX`:
/// `limit − (ceil((min_gas + used)·price/factor) + tip)` when non-negative, else `None`.
pub fn refund(min_gas: u64, used: u64, price: u64, factor: u64, tip: u64, limit: u64) -> Option<u64> {
    let total = min_gas as u128 + used as u128;
    assert!(total <= u64::MAX as u128, "outside the sound domain");
    let f = fee(total as u64, price, factor, tip);
    (limit as u128).checked_sub(f).map(|r| r as u64)
}

/// Upper bound of the refund outside the sound domain: the fee is at least the fee of `min_gas`.
pub fn refund_upper_bound(min_gas: u64, price: u64, factor: u64, tip: u64, limit: u64) -> Option<u64> {
    (limit as u128).checked_sub(fee(min_gas, price, factor, tip)).map(|r| r as u64)
}

/// `DependentCost::resolve`: `base + units / units_per_gas` (light) or `base + units · gas_per_unit`
/// (heavy), saturating at `u64::MAX`.
pub fn dependent_cost(heavy: bool, base: u64, rate: u64, units: u64) -> u64 {
    let dep: u128 = if heavy {
        units as u128 * rate as u128
    } else {
        assert!(rate >= 1, "units_per_gas = 0 is documented as invalid");
        (units / rate) as u128
    };
    (base as u128 + dep).min(u64::MAX as u128) as u64
}

#[cfg(test)]
mod tests {
    use super::*;
    #[test]
    fn small() {
        assert_eq!(gas_to_fee(10, 3, 4), 8);
        assert_eq!(gas_to_fee(8, 3, 4), 6);
        assert_eq!(gas_to_fee(u64::MAX, u64::MAX, 1), u64::MAX as u128 * u64::MAX as u128);
        assert_eq!(refund(1, 1, 1, 1, 1, 3), Some(0));
        assert_eq!(refund(1, 1, 1, 1, 1, 2), None);
        assert_eq!(dependent_cost(false, 5, 4, 9), 7);
        assert_eq!(dependent_cost(true, 5, u64::MAX, 2), u64::MAX);
    }
}
