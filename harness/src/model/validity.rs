//! Reference validity predicate and free balances for C19.
//!
//! Written from the rule list of the property statement / DESIGN.md Appendix C; rule names follow
//! the upstream `ValidityError` variants. The predicate is order-free: `violations` returns the
//! *set* of broken rules (empty = valid). It works on the plain G-TX spec of the transaction plus
//! three numbers measured on the built transaction (serialized size, `max_gas`, see Appendix C
//! notes) and never calls the checking code under test.
//! Trusted base: `sha2`, `model::rfc6962`, `postcard` + serde derive for "parameters decode".

use crate::gens::tx::*;
use crate::model::rfc6962 as rf;
use fuel_tx::ConsensusParameters;
use sha2::{Digest, Sha256};
use std::collections::{BTreeMap, BTreeSet};

#[derive(Debug, Clone, Copy, PartialEq, Eq, Hash, PartialOrd, Ord)]
pub enum Rule {
    SizeLimitExceeded,
    PoliciesInvalid,
    WitnessLimitExceeded,
    MaxGasExceeded,
    MaxFeeNotSet,
    Maturity,
    Expiration,
    InputsMax,
    OutputsMax,
    WitnessesMax,
    OwnerIndexOutOfBounds,
    OwnerInputHasNoOwner,
    NoSpendableInput,
    ChangeAssetDuplicated,
    DuplicateUtxo,
    DuplicateContract,
    DuplicateNonce,
    PredicateEmpty,
    PredicateLength,
    PredicateDataLength,
    WitnessIndexBounds,
    ContractInputOutputPairing,
    MessageDataLength,
    OutputContractInputIndex,
    ChangeAssetNotFound,
    CoinAssetNotFound,
    BalanceOverflow,
    BalanceInsufficient,
    ScriptLength,
    ScriptDataLength,
    OutputContainsContractCreated,
    CreateBytecodeWitnessIndex,
    CreateBytecodeLen,
    CreateStorageSlotMax,
    CreateStorageSlotOrder,
    InputContainsNonBaseAsset,
    InputContainsContract,
    InputContainsMessageData,
    OutputContainsContract,
    OutputContainsVariable,
    ChangeUsesNotBaseAsset,
    ContractCreatedDoesntMatch,
    ContractCreatedMultiple,
    ContractCreatedMissing,
    UpgradeNoPrivilegedAddress,
    BodyWitnessIndexBounds,
    UpgradeChecksumMismatch,
    UpgradeParametersUndecodable,
    UploadTooManySubsections,
    UploadRootVerificationFailed,
    BlobIdVerificationFailed,
    MintIncorrectBlockHeight,
    MintIncorrectOutputIndex,
    MintNonBaseAsset,
}

impl Rule {
    /// `ValidityError` variant names that report this rule
    pub fn errors(&self) -> &'static [&'static str] {
        use Rule::*;
        match self {
            SizeLimitExceeded => &["TransactionSizeLimitExceeded"],
            PoliciesInvalid => &["TransactionPoliciesAreInvalid"],
            WitnessLimitExceeded => &["TransactionWitnessLimitExceeded"],
            MaxGasExceeded => &["TransactionMaxGasExceeded"],
            MaxFeeNotSet => &["TransactionMaxFeeNotSet"],
            Maturity => &["TransactionMaturity"],
            Expiration => &["TransactionExpiration"],
            InputsMax => &["TransactionInputsMax"],
            OutputsMax => &["TransactionOutputsMax"],
            WitnessesMax => &["TransactionWitnessesMax"],
            OwnerIndexOutOfBounds => &["TransactionOwnerIndexOutOfBounds"],
            OwnerInputHasNoOwner => &["TransactionOwnerInputHasNoOwner"],
            NoSpendableInput => &["NoSpendableInput"],
            ChangeAssetDuplicated => &["TransactionOutputChangeAssetIdDuplicated"],
            DuplicateUtxo => &["DuplicateInputUtxoId"],
            DuplicateContract => &["DuplicateInputContractId"],
            DuplicateNonce => &["DuplicateInputNonce"],
            PredicateEmpty => &["InputPredicateEmpty"],
            PredicateLength => &["InputPredicateLength"],
            PredicateDataLength => &["InputPredicateDataLength"],
            WitnessIndexBounds => &["InputWitnessIndexBounds"],
            ContractInputOutputPairing => &["InputContractAssociatedOutputContract"],
            MessageDataLength => &["InputMessageDataLength"],
            OutputContractInputIndex => &["OutputContractInputIndex"],
            ChangeAssetNotFound => &["TransactionOutputChangeAssetIdNotFound"],
            CoinAssetNotFound => &["TransactionOutputCoinAssetIdNotFound"],
            BalanceOverflow => &["BalanceOverflow"],
            BalanceInsufficient => &["InsufficientFeeAmount", "InsufficientInputAmount"],
            ScriptLength => &["TransactionScriptLength"],
            ScriptDataLength => &["TransactionScriptDataLength"],
            OutputContainsContractCreated => &["TransactionOutputContainsContractCreated"],
            CreateBytecodeWitnessIndex => &["TransactionCreateBytecodeWitnessIndex"],
            CreateBytecodeLen => &["TransactionCreateBytecodeLen"],
            CreateStorageSlotMax => &["TransactionCreateStorageSlotMax"],
            CreateStorageSlotOrder => &["TransactionCreateStorageSlotOrder"],
            InputContainsNonBaseAsset => &["TransactionInputContainsNonBaseAssetId"],
            InputContainsContract => &["TransactionInputContainsContract"],
            InputContainsMessageData => &["TransactionInputContainsMessageData"],
            OutputContainsContract => &["TransactionOutputContainsContract"],
            OutputContainsVariable => &["TransactionOutputContainsVariable"],
            ChangeUsesNotBaseAsset => &["TransactionChangeChangeUsesNotBaseAsset"],
            ContractCreatedDoesntMatch => &["TransactionCreateOutputContractCreatedDoesntMatch"],
            ContractCreatedMultiple => &["TransactionCreateOutputContractCreatedMultiple"],
            ContractCreatedMissing => &["TransactionOutputDoesntContainContractCreated"],
            UpgradeNoPrivilegedAddress => &["TransactionUpgradeNoPrivilegedAddress"],
            BodyWitnessIndexBounds => &["InputWitnessIndexBounds"],
            UpgradeChecksumMismatch => &["TransactionUpgradeConsensusParametersChecksumMismatch"],
            UpgradeParametersUndecodable => &["TransactionUpgradeConsensusParametersDeserialization"],
            UploadTooManySubsections => &["TransactionUploadTooManyBytecodeSubsections"],
            UploadRootVerificationFailed => &["TransactionUploadRootVerificationFailed"],
            BlobIdVerificationFailed => &["TransactionBlobIdVerificationFailed"],
            MintIncorrectBlockHeight => &["TransactionMintIncorrectBlockHeight"],
            MintIncorrectOutputIndex => &["TransactionMintIncorrectOutputIndex"],
            MintNonBaseAsset => &["TransactionMintNonBaseAsset"],
        }
    }
}

/// consensus limits as plain numbers
#[derive(Debug, Clone)]
pub struct MParams {
    pub max_inputs: u64,
    pub max_outputs: u64,
    pub max_witnesses: u64,
    pub max_gas_per_tx: u64,
    pub max_size: u64,
    pub max_bytecode_subsections: u64,
    pub max_predicate_length: u64,
    pub max_predicate_data_length: u64,
    pub max_message_data_length: u64,
    pub max_script_length: u64,
    pub max_script_data_length: u64,
    pub contract_max_size: u64,
    pub max_storage_slots: u64,
    pub base_asset: B32,
    pub privileged: B32,
}

impl MParams {
    pub fn from(p: &ConsensusParameters) -> MParams {
        let t = p.tx_params();
        let pp = p.predicate_params();
        MParams {
            max_inputs: t.max_inputs() as u64,
            max_outputs: t.max_outputs() as u64,
            max_witnesses: t.max_witnesses() as u64,
            max_gas_per_tx: t.max_gas_per_tx(),
            max_size: t.max_size(),
            max_bytecode_subsections: t.max_bytecode_subsections() as u64,
            max_predicate_length: pp.max_predicate_length(),
            max_predicate_data_length: pp.max_predicate_data_length(),
            max_message_data_length: pp.max_message_data_length(),
            max_script_length: p.script_params().max_script_length(),
            max_script_data_length: p.script_params().max_script_data_length(),
            contract_max_size: p.contract_params().contract_max_size(),
            max_storage_slots: p.contract_params().max_storage_slots(),
            base_asset: B32(**p.base_asset_id()),
            privileged: B32(**p.privileged_address()),
        }
    }
}

/// the transaction as the model sees it
#[derive(Debug, Clone)]
pub struct MTx {
    pub tx: AnyTx,
    /// raw policy bits and values (value of an unset policy must be 0)
    pub pol_bits: u32,
    pub pol_vals: [u64; 6],
    /// storage slots in transaction order when they differ from the (sorted) spec
    pub raw_slots: Option<Vec<(B32, B32)>>,
    /// canonical serialized size of the built transaction
    pub size: u64,
    /// `Chargeable::max_gas` of the built transaction (Appendix C: C18 judges the number itself)
    pub max_gas: u64,
}

impl MTx {
    pub fn new(tx: &AnyTx, raw_pol: Option<(u32, [u64; 6])>, raw_slots: Option<Vec<(B32, B32)>>, size: u64, max_gas: u64) -> MTx {
        let (pol_bits, pol_vals) = match (raw_pol, tx) {
            (Some(p), _) => p,
            (None, AnyTx::Charge(t)) => {
                let mut v = [0u64; 6];
                for i in 0..6 {
                    if t.pol.mask & (1 << i) != 0 {
                        v[i] = t.pol.vals[i];
                    }
                }
                ((t.pol.mask & 0x3f) as u32, v)
            }
            (None, AnyTx::Mint(_)) => (0, [0; 6]),
        };
        MTx { tx: tx.clone(), pol_bits, pol_vals, raw_slots, size, max_gas }
    }
    fn pol(&self, i: usize) -> Option<u64> {
        (self.pol_bits & (1 << i) != 0).then_some(self.pol_vals[i])
    }
}

const TIP: usize = 0;
const WITNESS_LIMIT: usize = 1;
const MATURITY: usize = 2;
const MAX_FEE: usize = 3;
const EXPIRATION: usize = 4;
const OWNER: usize = 5;
const _: usize = TIP;

fn sha(parts: &[&[u8]]) -> [u8; 32] {
    let mut h = Sha256::new();
    for p in parts {
        h.update(p);
    }
    h.finalize().into()
}

/// code root of the contract-id specification: 16 KiB leaves, the last one zero-padded to a
/// multiple of 8 bytes, binary Merkle (RFC 6962) tree hash
pub fn code_root(code: &[u8]) -> [u8; 32] {
    let leaves: Vec<Vec<u8>> = code
        .chunks(16 * 1024)
        .map(|c| {
            let mut v = c.to_vec();
            while v.len() % 8 != 0 {
                v.push(0);
            }
            v
        })
        .collect();
    rf::mth(&leaves)
}

/// compact sparse Merkle root over (sha256(key) -> leaf) : empty subtree = 0^32, a subtree with a
/// single leaf is that leaf, otherwise H(0x01 ‖ left ‖ right) (an empty side hashes as 0^32), bits taken MSB first
fn smt(leaves: &[([u8; 32], [u8; 32])], depth: usize) -> [u8; 32] {
    match leaves.len() {
        0 => [0; 32],
        1 => leaves[0].1,
        _ => {
            let bit = |k: &[u8; 32]| (k[depth / 8] >> (7 - depth % 8)) & 1;
            let l: Vec<_> = leaves.iter().filter(|(k, _)| bit(k) == 0).cloned().collect();
            let r: Vec<_> = leaves.iter().filter(|(k, _)| bit(k) == 1).cloned().collect();
            sha(&[&[1u8], &smt(&l, depth + 1), &smt(&r, depth + 1)])
        }
    }
}

/// initial state root of the contract-id specification (later duplicates of a key win)
pub fn state_root(slots: &[(B32, B32)]) -> [u8; 32] {
    let mut m: BTreeMap<[u8; 32], [u8; 32]> = BTreeMap::new();
    for (k, v) in slots {
        let path = sha(&[&k.0]);
        let leaf = sha(&[&[0u8], &path, &sha(&[&v.0])]);
        m.insert(path, leaf);
    }
    let v: Vec<_> = m.into_iter().collect();
    smt(&v, 0)
}

pub fn contract_id(salt: &B32, code_root: &[u8; 32], state_root: &[u8; 32]) -> [u8; 32] {
    sha(&[b"FUEL", &salt.0, code_root, state_root])
}

fn is_spendable(i: &InSpec) -> bool {
    matches!(i, InSpec::CoinSigned { .. } | InSpec::CoinPredicate { .. } | InSpec::MsgCoinSigned { .. } | InSpec::MsgCoinPredicate { .. })
}
fn is_msg_data(i: &InSpec) -> bool {
    matches!(i, InSpec::MsgDataSigned { .. } | InSpec::MsgDataPredicate { .. })
}
fn is_contract(i: &InSpec) -> bool {
    matches!(i, InSpec::Contract { .. })
}
/// asset an input contributes to "assets present in the inputs" (messages count as base asset)
fn rule_asset(i: &InSpec, base: &B32) -> Option<B32> {
    match i {
        InSpec::CoinSigned { asset, .. } | InSpec::CoinPredicate { asset, .. } => Some(*asset),
        InSpec::Contract { .. } => None,
        _ => Some(*base),
    }
}
fn owner_of(i: &InSpec) -> Option<B32> {
    match i {
        InSpec::CoinSigned { owner, .. } | InSpec::CoinPredicate { owner, .. } => Some(*owner),
        InSpec::Contract { .. } => None,
        InSpec::MsgCoinSigned { recipient, .. } | InSpec::MsgCoinPredicate { recipient, .. } | InSpec::MsgDataSigned { recipient, .. } | InSpec::MsgDataPredicate { recipient, .. } => Some(*recipient),
    }
}
fn has_dup<T: Ord + Clone>(it: impl Iterator<Item = T>) -> bool {
    let mut s = BTreeSet::new();
    for x in it {
        if !s.insert(x) {
            return true;
        }
    }
    false
}

#[derive(Debug, Clone, PartialEq, Eq)]
pub struct Balances {
    /// per asset: Σ spendable inputs − Σ coin outputs − fee limit (base asset)
    pub free: BTreeMap<B32, u64>,
    /// Σ message-data amounts
    pub retryable: u64,
}

/// Reference free balances in u128 / i128. `Err` = a sum overflows u64 or a balance is negative.
pub fn free_balances(inputs: &[InSpec], outputs: &[OutSpec], fee_limit: u64, base: &B32) -> Result<Balances, Rule> {
    let mut sums: BTreeMap<B32, i128> = BTreeMap::new();
    let mut retry: u128 = 0;
    for i in inputs {
        match i {
            InSpec::CoinSigned { asset, amount, .. } | InSpec::CoinPredicate { asset, amount, .. } => *sums.entry(*asset).or_default() += *amount as i128,
            InSpec::MsgCoinSigned { amount, .. } | InSpec::MsgCoinPredicate { amount, .. } => *sums.entry(*base).or_default() += *amount as i128,
            InSpec::MsgDataSigned { amount, .. } | InSpec::MsgDataPredicate { amount, .. } => retry += *amount as u128,
            InSpec::Contract { .. } => {}
        }
    }
    if retry > u64::MAX as u128 || sums.values().any(|v| *v > u64::MAX as i128) {
        return Err(Rule::BalanceOverflow);
    }
    *sums.entry(*base).or_default() -= fee_limit as i128;
    for o in outputs {
        if let OutSpec::Coin { amount, asset, .. } = o {
            *sums.entry(*asset).or_default() -= *amount as i128;
        }
    }
    if sums.values().any(|v| *v < 0) {
        return Err(Rule::BalanceInsufficient);
    }
    Ok(Balances { free: sums.into_iter().map(|(k, v)| (k, v as u64)).collect(), retryable: retry as u64 })
}

/// the set of validity rules `m` breaks at block `height` under `p` (empty = valid)
pub fn violations(m: &MTx, height: u32, p: &MParams) -> BTreeSet<Rule> {
    use Rule::*;
    let mut v = BTreeSet::new();
    if m.size > p.max_size {
        v.insert(SizeLimitExceeded);
    }
    let t = match &m.tx {
        AnyTx::Mint(mint) => {
            if mint.txp.0 != height {
                v.insert(MintIncorrectBlockHeight);
            }
            if mint.out_input_index != 0 {
                v.insert(MintIncorrectOutputIndex);
            }
            if mint.asset != p.base_asset {
                v.insert(MintNonBaseAsset);
            }
            return v;
        }
        AnyTx::Charge(t) => t,
    };
    let base = &p.base_asset;
    let (ins, outs, wits) = (&t.inputs, &t.outputs, &t.witnesses);

    // R2 policies
    let mut pol_ok = m.pol_bits <= 0x3f;
    for i in 0..6 {
        if m.pol_bits & (1 << i) == 0 && m.pol_vals[i] != 0 {
            pol_ok = false;
        }
    }
    for i in [MATURITY, EXPIRATION, OWNER] {
        if m.pol(i).is_some_and(|x| x > u32::MAX as u64) {
            pol_ok = false;
        }
    }
    if !pol_ok {
        v.insert(PoliciesInvalid);
    }
    // R3 witness limit
    let wbytes: u64 = wits.iter().map(|w| 8 + (w.0.len() as u64).div_ceil(8) * 8).sum();
    if m.pol(WITNESS_LIMIT).is_some_and(|l| wbytes > l) {
        v.insert(WitnessLimitExceeded);
    }
    // R4, R5
    if m.max_gas > p.max_gas_per_tx {
        v.insert(MaxGasExceeded);
    }
    if m.pol(MAX_FEE).is_none() {
        v.insert(MaxFeeNotSet);
    }
    // R6, R7
    if m.pol(MATURITY).is_some_and(|x| x > height as u64) {
        v.insert(Maturity);
    }
    if m.pol(EXPIRATION).is_some_and(|x| x < height as u64) {
        v.insert(Expiration);
    }
    // R8-R10
    if ins.len() as u64 > p.max_inputs {
        v.insert(InputsMax);
    }
    if outs.len() as u64 > p.max_outputs {
        v.insert(OutputsMax);
    }
    if wits.len() as u64 > p.max_witnesses {
        v.insert(WitnessesMax);
    }
    // R11 owner
    if let Some(o) = m.pol(OWNER) {
        if o > u32::MAX as u64 || o >= ins.len() as u64 {
            v.insert(OwnerIndexOutOfBounds);
        } else if owner_of(&ins[o as usize]).is_none() {
            v.insert(OwnerInputHasNoOwner);
        }
    }
    // R12
    if !ins.iter().any(is_spendable) {
        v.insert(NoSpendableInput);
    }
    // R13 / R18 assets
    let present: BTreeSet<B32> = ins.iter().filter_map(|i| rule_asset(i, base)).collect();
    for a in &present {
        if outs.iter().filter(|o| matches!(o, OutSpec::Change { asset, .. } if asset == a)).count() > 1 {
            v.insert(ChangeAssetDuplicated);
        }
    }
    // R14-R16
    if has_dup(ins.iter().filter_map(|i| match i {
        InSpec::CoinSigned { utxo, .. } | InSpec::CoinPredicate { utxo, .. } => Some((utxo.0, utxo.1)),
        _ => None,
    })) {
        v.insert(DuplicateUtxo);
    }
    if has_dup(ins.iter().filter_map(|i| if let InSpec::Contract { contract, .. } = i { Some(*contract) } else { None })) {
        v.insert(DuplicateContract);
    }
    if has_dup(ins.iter().filter_map(|i| match i {
        InSpec::MsgCoinSigned { nonce, .. } | InSpec::MsgCoinPredicate { nonce, .. } | InSpec::MsgDataSigned { nonce, .. } | InSpec::MsgDataPredicate { nonce, .. } => Some(*nonce),
        _ => None,
    })) {
        v.insert(DuplicateNonce);
    }
    // R17 per input
    for (idx, i) in ins.iter().enumerate() {
        match i {
            InSpec::CoinPredicate { predicate, pdata, .. } | InSpec::MsgCoinPredicate { predicate, pdata, .. } | InSpec::MsgDataPredicate { predicate, pdata, .. } => {
                if predicate.0.is_empty() {
                    v.insert(PredicateEmpty);
                }
                if predicate.0.len() as u64 > p.max_predicate_length {
                    v.insert(PredicateLength);
                }
                if pdata.0.len() as u64 > p.max_predicate_data_length {
                    v.insert(PredicateDataLength);
                }
            }
            InSpec::CoinSigned { wit, .. } | InSpec::MsgCoinSigned { wit, .. } | InSpec::MsgDataSigned { wit, .. } => {
                if *wit as usize >= wits.len() {
                    v.insert(WitnessIndexBounds);
                }
            }
            InSpec::Contract { .. } => {
                let n = outs.iter().filter(|o| matches!(o, OutSpec::Contract { input_index, .. } if *input_index as usize == idx)).count();
                if n != 1 {
                    v.insert(ContractInputOutputPairing);
                }
            }
        }
        if let InSpec::MsgDataSigned { data, .. } | InSpec::MsgDataPredicate { data, .. } = i {
            if data.0.is_empty() || data.0.len() as u64 > p.max_message_data_length {
                v.insert(MessageDataLength);
            }
        }
    }
    // R18 per output
    for o in outs {
        match o {
            OutSpec::Contract { input_index, .. } => {
                if !ins.get(*input_index as usize).is_some_and(is_contract) {
                    v.insert(OutputContractInputIndex);
                }
            }
            OutSpec::Change { asset, .. } => {
                if !present.contains(asset) {
                    v.insert(ChangeAssetNotFound);
                }
            }
            OutSpec::Coin { asset, .. } => {
                if !present.contains(asset) {
                    v.insert(CoinAssetNotFound);
                }
            }
            _ => {}
        }
    }
    // R19 balances (a missing fee limit is its own rule; the balances are then judged with 0)
    if let Err(r) = free_balances(ins, outs, m.pol(MAX_FEE).unwrap_or(0), base) {
        v.insert(r);
    }

    // kind-specific
    let restricted = |v: &mut BTreeSet<Rule>, forbid_created: bool| {
        for i in ins {
            if let InSpec::CoinSigned { asset, .. } | InSpec::CoinPredicate { asset, .. } = i {
                if asset != base {
                    v.insert(InputContainsNonBaseAsset);
                }
            }
            if is_contract(i) {
                v.insert(InputContainsContract);
            }
            if is_msg_data(i) {
                v.insert(InputContainsMessageData);
            }
        }
        for o in outs {
            match o {
                OutSpec::Contract { .. } => {
                    v.insert(OutputContainsContract);
                }
                OutSpec::Variable { .. } => {
                    v.insert(OutputContainsVariable);
                }
                OutSpec::Change { asset, .. } if asset != base => {
                    v.insert(ChangeUsesNotBaseAsset);
                }
                OutSpec::ContractCreated { .. } if forbid_created => {
                    v.insert(OutputContainsContractCreated);
                }
                _ => {}
            }
        }
    };
    match &t.body {
        BodySpec::Script { script, data, .. } => {
            if script.0.len() as u64 > p.max_script_length {
                v.insert(ScriptLength);
            }
            if data.0.len() as u64 > p.max_script_data_length {
                v.insert(ScriptDataLength);
            }
            if outs.iter().any(|o| matches!(o, OutSpec::ContractCreated { .. })) {
                v.insert(OutputContainsContractCreated);
            }
        }
        BodySpec::Create { wit, salt, slots } => {
            let slots = m.raw_slots.as_ref().unwrap_or(slots);
            restricted(&mut v, false);
            if slots.len() as u64 > p.max_storage_slots {
                v.insert(CreateStorageSlotMax);
            }
            if !slots.windows(2).all(|w| w[0].0 < w[1].0) {
                v.insert(CreateStorageSlotOrder);
            }
            let created: Vec<_> = outs.iter().filter_map(|o| if let OutSpec::ContractCreated { contract, state_root } = o { Some((*contract, *state_root)) } else { None }).collect();
            if created.is_empty() {
                v.insert(ContractCreatedMissing);
            }
            if created.len() > 1 {
                v.insert(ContractCreatedMultiple);
            }
            match wits.get(*wit as usize) {
                None => {
                    v.insert(CreateBytecodeWitnessIndex);
                }
                Some(code) => {
                    if code.0.len() as u64 > p.contract_max_size {
                        v.insert(CreateBytecodeLen);
                    }
                    let sr = state_root(slots);
                    let id = contract_id(salt, &code_root(&code.0), &sr);
                    if created.iter().any(|(c, s)| c.0 != id || s.0 != sr) {
                        v.insert(ContractCreatedDoesntMatch);
                    }
                }
            }
        }
        BodySpec::Upgrade(purpose) => {
            restricted(&mut v, true);
            if !ins.iter().any(|i| owner_of(i) == Some(p.privileged)) {
                v.insert(UpgradeNoPrivilegedAddress);
            }
            if let PurposeSpec::Consensus { wit, checksum } = purpose {
                match wits.get(*wit as usize) {
                    None => {
                        v.insert(BodyWitnessIndexBounds);
                    }
                    Some(w) => {
                        if sha(&[&w.0]) != checksum.0 {
                            v.insert(UpgradeChecksumMismatch);
                        }
                        if postcard::from_bytes::<ConsensusParameters>(&w.0).is_err() {
                            v.insert(UpgradeParametersUndecodable);
                        }
                    }
                }
            }
        }
        BodySpec::Upload { root, wit, sub_idx, sub_n, proof } => {
            restricted(&mut v, true);
            if *sub_n as u64 > p.max_bytecode_subsections {
                v.insert(UploadTooManySubsections);
            }
            match wits.get(*wit as usize) {
                None => {
                    v.insert(BodyWitnessIndexBounds);
                }
                Some(w) => {
                    let path: Vec<[u8; 32]> = proof.iter().map(|x| x.0).collect();
                    if !rf::verify_audit_path(&root.0, &w.0, &path, *sub_idx as u64, *sub_n as u64) {
                        v.insert(UploadRootVerificationFailed);
                    }
                }
            }
        }
        BodySpec::Blob { id, wit } => {
            restricted(&mut v, true);
            match wits.get(*wit as usize) {
                None => {
                    v.insert(BodyWitnessIndexBounds);
                }
                Some(w) => {
                    if sha(&[&w.0]) != id.0 {
                        v.insert(BlobIdVerificationFailed);
                    }
                }
            }
        }
    }
    v
}

/// boolean validity predicate
pub fn check(m: &MTx, height: u32, p: &MParams) -> bool {
    violations(m, height, p).is_empty()
}
