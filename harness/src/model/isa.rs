//! model::isa — independent table of the FuelVM instruction set: opcode byte → mnemonic and
//! argument shape, plus the harness's own arithmetic for field positions.
//!
//! Nothing in this file calls `fuel-asm`. The table exists twice:
//!  * `for_each_op!` — a snapshot written by hand from the ISA declaration (the instruction-set
//!    specification), usable as a *callback macro* so that a property can generate one library
//!    binding per mnemonic (`op::ADD::from_raw_args`, `op::add(..)`, …);
//!  * `parse_decl` — a small tokenizer that reads the `impl_instructions! { … }` invocation of
//!    `fuel-asm/src/lib.rs` at run time, so a new / removed / reshaped opcode is noticed.
//!
//! Layout of a 32-bit instruction word (big-endian in memory):
//! ```text
//!   31..24 opcode | 23..18 rA | 17..12 rB | 11..6 rC | 5..0 rD
//!   immediates are right-aligned: imm06 = 5..0, imm12 = 11..0, imm18 = 17..0, imm24 = 23..0
//! ```
//! Registers are allocated from the top, the (single, last) immediate takes all remaining bits;
//! when there is no immediate the remaining low bits are *reserved* and must be zero.

use serde::{Deserialize, Serialize};

#[derive(Clone, Copy, Debug, PartialEq, Eq, Hash, PartialOrd, Ord, Serialize, Deserialize)]
pub enum Shape {
    /// no arguments
    N,
    R,
    RR,
    RRR,
    RRRR,
    RRRI6,
    RRI12,
    RI18,
    I24,
}

/// Extracted argument fields of a word (register ids first, then the immediate).
#[derive(Clone, Copy, Debug, PartialEq, Eq, Hash, Serialize, Deserialize)]
pub struct Fields {
    pub n: u8,
    pub v: [u32; 4],
}

impl Fields {
    pub const NONE: Fields = Fields { n: 0, v: [0; 4] };
    pub fn of(vals: &[u32]) -> Fields {
        let mut v = [0u32; 4];
        v[..vals.len()].copy_from_slice(vals);
        Fields { n: vals.len() as u8, v }
    }
    pub fn as_slice(&self) -> &[u32] {
        &self.v[..self.n as usize]
    }
}

impl Shape {
    pub const ALL: [Shape; 9] =
        [Shape::N, Shape::R, Shape::RR, Shape::RRR, Shape::RRRR, Shape::RRRI6, Shape::RRI12, Shape::RI18, Shape::I24];

    pub fn label(self) -> &'static str {
        match self {
            Shape::N => "[]",
            Shape::R => "[r]",
            Shape::RR => "[r,r]",
            Shape::RRR => "[r,r,r]",
            Shape::RRRR => "[r,r,r,r]",
            Shape::RRRI6 => "[r,r,r,i6]",
            Shape::RRI12 => "[r,r,i12]",
            Shape::RI18 => "[r,i18]",
            Shape::I24 => "[i24]",
        }
    }

    /// number of leading register arguments
    pub fn regs(self) -> usize {
        match self {
            Shape::N | Shape::I24 => 0,
            Shape::R | Shape::RI18 => 1,
            Shape::RR | Shape::RRI12 => 2,
            Shape::RRR | Shape::RRRI6 => 3,
            Shape::RRRR => 4,
        }
    }

    /// width in bits of the trailing immediate (0 = none)
    pub fn imm_bits(self) -> u32 {
        match self {
            Shape::RRRI6 => 6,
            Shape::RRI12 => 12,
            Shape::RI18 => 18,
            Shape::I24 => 24,
            _ => 0,
        }
    }

    /// number of argument fields
    pub fn arity(self) -> usize {
        self.regs() + (self.imm_bits() != 0) as usize
    }

    /// (shift, width) of field `i`
    pub fn field(self, i: usize) -> (u32, u32) {
        if i < self.regs() {
            (18 - 6 * i as u32, 6)
        } else {
            debug_assert!(i == self.regs() && self.imm_bits() != 0);
            (0, self.imm_bits())
        }
    }

    /// bits of the 24-bit payload that carry arguments
    pub fn used_mask(self) -> u32 {
        let mut m = 0u32;
        for i in 0..self.arity() {
            let (s, w) = self.field(i);
            m |= ((1u32 << w) - 1) << s;
        }
        m
    }

    /// bits of the 24-bit payload that must be zero
    pub fn reserved_mask(self) -> u32 {
        0x00FF_FFFF & !self.used_mask()
    }

    pub fn extract(self, word: u32) -> Fields {
        let mut f = Fields::NONE;
        f.n = self.arity() as u8;
        for i in 0..self.arity() {
            let (s, w) = self.field(i);
            f.v[i] = (word >> s) & ((1u32 << w) - 1);
        }
        f
    }

    /// maximal value of field `i`
    pub fn field_max(self, i: usize) -> u32 {
        let (_, w) = self.field(i);
        (1u32 << w) - 1
    }

    pub fn in_range(self, f: &Fields) -> bool {
        f.n as usize == self.arity() && (0..self.arity()).all(|i| f.v[i] <= self.field_max(i))
    }

    /// word for opcode `byte` and in-range fields
    pub fn pack(self, byte: u8, f: &Fields) -> u32 {
        let mut w = (byte as u32) << 24;
        for i in 0..self.arity() {
            let (s, _) = self.field(i);
            w |= f.v[i] << s;
        }
        w
    }

    pub fn from_arg_types(types: &[&str]) -> Option<Shape> {
        Some(match types {
            [] => Shape::N,
            ["RegId"] => Shape::R,
            ["RegId", "RegId"] => Shape::RR,
            ["RegId", "RegId", "RegId"] => Shape::RRR,
            ["RegId", "RegId", "RegId", "RegId"] => Shape::RRRR,
            ["RegId", "RegId", "RegId", "Imm06"] => Shape::RRRI6,
            ["RegId", "RegId", "Imm12"] => Shape::RRI12,
            ["RegId", "Imm18"] => Shape::RI18,
            ["Imm24"] => Shape::I24,
            _ => return None,
        })
    }
}

/// The snapshot of the instruction set (pinned checkout), as a callback macro:
/// `for_each_op!(my_macro)` expands to `my_macro! { 0x10 ADD add RRR, … }`.
#[macro_export]
macro_rules! for_each_op {
    ($cb:ident) => {
        $cb! {
            0x10 ADD add RRR, 0x11 AND and RRR, 0x12 DIV div RRR, 0x13 EQ eq RRR,
            0x14 EXP exp RRR, 0x15 GT gt RRR, 0x16 LT lt RRR, 0x17 MLOG mlog RRR,
            0x18 MROO mroo RRR, 0x19 MOD mod_ RRR, 0x1A MOVE move_ RR, 0x1B MUL mul RRR,
            0x1C NOT not RR, 0x1D OR or RRR, 0x1E SLL sll RRR, 0x1F SRL srl RRR,
            0x20 SUB sub RRR, 0x21 XOR xor RRR, 0x22 MLDV mldv RRRR, 0x23 NIOP niop RRRI6,
            0x24 RET ret R, 0x25 RETD retd RR, 0x26 ALOC aloc R, 0x27 MCL mcl RR,
            0x28 MCP mcp RRR, 0x29 MEQ meq RRRR, 0x2A BHSH bhsh RR, 0x2B BHEI bhei R,
            0x2C BURN burn RR, 0x2D CALL call RRRR, 0x2E CCP ccp RRRR, 0x2F CROO croo RR,
            0x30 CSIZ csiz RR, 0x31 CB cb R, 0x32 LDC ldc RRRI6, 0x33 LOG log RRRR,
            0x34 LOGD logd RRRR, 0x35 MINT mint RR, 0x36 RVRT rvrt R, 0x37 SCWQ scwq RRR,
            0x38 SRW srw RRRI6, 0x39 SRWQ srwq RRRR, 0x3A SWW sww RRR, 0x3B SWWQ swwq RRRR,
            0x3C TR tr RRR, 0x3D TRO tro RRRR, 0x3E ECK1 eck1 RRR, 0x3F ECR1 ecr1 RRR,
            0x40 ED19 ed19 RRRR, 0x41 K256 k256 RRR, 0x42 S256 s256 RRR, 0x43 TIME time RR,
            0x47 NOOP noop N, 0x48 FLAG flag R, 0x49 BAL bal RRR, 0x4A JMP jmp R,
            0x4B JNE jne RRR, 0x4C SMO smo RRRR,
            0x50 ADDI addi RRI12, 0x51 ANDI andi RRI12, 0x52 DIVI divi RRI12, 0x53 EXPI expi RRI12,
            0x54 MODI modi RRI12, 0x55 MULI muli RRI12, 0x56 ORI ori RRI12, 0x57 SLLI slli RRI12,
            0x58 SRLI srli RRI12, 0x59 SUBI subi RRI12, 0x5A XORI xori RRI12, 0x5B JNEI jnei RRI12,
            0x5C LB lb RRI12, 0x5D LW lw RRI12, 0x5E SB sb RRI12, 0x5F SW sw RRI12,
            0x60 MCPI mcpi RRI12, 0x61 GTF gtf RRI12, 0x62 LQW lqw RRI12, 0x63 LHW lhw RRI12,
            0x64 SQW sqw RRI12, 0x65 SHW shw RRI12,
            0x70 MCLI mcli RI18, 0x71 GM gm RI18, 0x72 MOVI movi RI18, 0x73 JNZI jnzi RI18,
            0x74 JMPF jmpf RI18, 0x75 JMPB jmpb RI18, 0x76 JNZF jnzf RRI12, 0x77 JNZB jnzb RRI12,
            0x78 JNEF jnef RRRI6, 0x79 JNEB jneb RRRI6,
            0x90 JI ji I24, 0x91 CFEI cfei I24, 0x92 CFSI cfsi I24, 0x93 CFE cfe R,
            0x94 CFS cfs R, 0x95 PSHL pshl I24, 0x96 PSHH pshh I24, 0x97 POPL popl I24,
            0x98 POPH poph I24, 0x99 JAL jal RRI12,
            0xA0 WDCM wdcm RRRI6, 0xA1 WQCM wqcm RRRI6, 0xA2 WDOP wdop RRRI6, 0xA3 WQOP wqop RRRI6,
            0xA4 WDML wdml RRRI6, 0xA5 WQML wqml RRRI6, 0xA6 WDDV wddv RRRI6, 0xA7 WQDV wqdv RRRI6,
            0xA8 WDMD wdmd RRRR, 0xA9 WQMD wqmd RRRR, 0xAA WDAM wdam RRRR, 0xAB WQAM wqam RRRR,
            0xAC WDMM wdmm RRRR, 0xAD WQMM wqmm RRRR,
            0xB0 ECAL ecal RRRR,
            0xBA BSIZ bsiz RR, 0xBB BLDD bldd RRRR, 0xBC ECOP ecop RRRR, 0xBE EPAR epar RRRR,
            0xC0 SCLR sclr RR, 0xC1 SRDD srdd RRRR, 0xC2 SRDI srdi RRRI6, 0xC3 SWRD swrd RRR,
            0xC4 SWRI swri RRI12, 0xC5 SUPD supd RRRR, 0xC6 SUPI supi RRRI6, 0xC7 SPLD spld RR
        }
    };
}

#[derive(Clone, Debug, PartialEq, Eq)]
pub struct OpInfo {
    pub byte: u8,
    pub name: String,
    pub ctor: String,
    pub shape: Shape,
}

macro_rules! snapshot_vec {
    ($($b:literal $N:ident $n:ident $s:ident),* $(,)?) => {
        vec![$(OpInfo { byte: $b, name: stringify!($N).to_string(), ctor: stringify!($n).to_string(), shape: Shape::$s }),*]
    };
}

/// the embedded snapshot
pub fn snapshot() -> Vec<OpInfo> {
    for_each_op!(snapshot_vec)
}

/// A 256-entry lookup table.
#[derive(Clone, Debug)]
pub struct Table {
    pub by_byte: Vec<Option<OpInfo>>,
}

impl Table {
    pub fn from_ops(ops: &[OpInfo]) -> Result<Table, String> {
        let mut by_byte: Vec<Option<OpInfo>> = vec![None; 256];
        for o in ops {
            if let Some(prev) = &by_byte[o.byte as usize] {
                return Err(format!("opcode byte {:#04x} declared twice ({} and {})", o.byte, prev.name, o.name));
            }
            by_byte[o.byte as usize] = Some(o.clone());
        }
        Ok(Table { by_byte })
    }
    pub fn get(&self, byte: u8) -> Option<&OpInfo> {
        self.by_byte[byte as usize].as_ref()
    }
    pub fn shape(&self, byte: u8) -> Option<Shape> {
        self.by_byte[byte as usize].as_ref().map(|o| o.shape)
    }
    pub fn defined(&self) -> impl Iterator<Item = &OpInfo> {
        self.by_byte.iter().filter_map(|o| o.as_ref())
    }
    /// human-readable differences `self` (in force) vs `other`
    pub fn diff(&self, other: &Table) -> Vec<String> {
        let mut d = vec![];
        for b in 0..=255u8 {
            match (self.get(b), other.get(b)) {
                (None, None) => {}
                (Some(a), None) => d.push(format!("{:#04x} {} {} only in the first table", b, a.name, a.shape.label())),
                (None, Some(o)) => d.push(format!("{:#04x} {} {} only in the second table", b, o.name, o.shape.label())),
                (Some(a), Some(o)) => {
                    if a != o {
                        d.push(format!(
                            "{:#04x}: {} {} {} vs {} {} {}",
                            b, a.name, a.ctor, a.shape.label(), o.name, o.ctor, o.shape.label()
                        ));
                    }
                }
            }
        }
        d
    }
}

#[derive(Debug, PartialEq, Eq, Clone)]
enum Tok {
    Str,
    Word(String),
    Open,
    Close,
    Colon,
}

fn tokenize(body: &str) -> Result<Vec<Tok>, String> {
    let mut out = vec![];
    let cs: Vec<char> = body.chars().collect();
    let mut i = 0;
    while i < cs.len() {
        let c = cs[i];
        if c.is_whitespace() || c == ',' {
            i += 1;
        } else if c == '/' && i + 1 < cs.len() && cs[i + 1] == '/' {
            while i < cs.len() && cs[i] != '\n' {
                i += 1;
            }
        } else if c == '"' {
            i += 1;
            loop {
                if i >= cs.len() {
                    return Err("unterminated string literal".into());
                }
                if cs[i] == '\\' {
                    i += 2;
                } else if cs[i] == '"' {
                    i += 1;
                    break;
                } else {
                    i += 1;
                }
            }
            out.push(Tok::Str);
        } else if c == '[' {
            out.push(Tok::Open);
            i += 1;
        } else if c == ']' {
            out.push(Tok::Close);
            i += 1;
        } else if c == ':' {
            out.push(Tok::Colon);
            i += 1;
        } else if c.is_alphanumeric() || c == '_' {
            let s = i;
            while i < cs.len() && (cs[i].is_alphanumeric() || cs[i] == '_') {
                i += 1;
            }
            out.push(Tok::Word(cs[s..i].iter().collect()));
        } else {
            return Err(format!("unexpected character {c:?} in the ISA declaration"));
        }
    }
    Ok(out)
}

/// Parse the body of the `impl_instructions! { … }` invocation found in `src`
/// (the text of `fuel-asm/src/lib.rs`): rows `"doc" 0xNN NAME name [arg: Type …]`.
pub fn parse_decl(src: &str) -> Result<Vec<OpInfo>, String> {
    // the invocation (not the `macro_rules!` definition, not a mention in a comment):
    // a line that starts with `impl_instructions! {`
    let mut start = None;
    let mut off = 0usize;
    for line in src.split_inclusive('\n') {
        if line.trim_end() == "impl_instructions! {" {
            start = Some(off + line.len());
            break;
        }
        off += line.len();
    }
    let start = start.ok_or("no `impl_instructions! {` line")?;
    // the body ends at the first line that is exactly `}`
    let mut end = None;
    let mut o2 = start;
    for line in src[start..].split_inclusive('\n') {
        if line.trim_end() == "}" {
            end = Some(o2);
            break;
        }
        o2 += line.len();
    }
    let end = end.ok_or("unterminated impl_instructions! body")?;
    let toks = tokenize(&src[start..end])?;
    let mut ops = vec![];
    let mut i = 0;
    while i < toks.len() {
        // optional doc strings
        while i < toks.len() && toks[i] == Tok::Str {
            i += 1;
        }
        if i >= toks.len() {
            break;
        }
        let Tok::Word(hex) = &toks[i] else { return Err(format!("expected opcode byte, got {:?}", toks[i])) };
        let byte = hex
            .strip_prefix("0x")
            .or_else(|| hex.strip_prefix("0X"))
            .and_then(|h| u8::from_str_radix(h, 16).ok())
            .ok_or_else(|| format!("bad opcode byte literal {hex}"))?;
        let (Some(Tok::Word(name)), Some(Tok::Word(ctor)), Some(Tok::Open)) = (toks.get(i + 1), toks.get(i + 2), toks.get(i + 3))
        else {
            return Err(format!("malformed row for {hex}"));
        };
        i += 4;
        let mut types: Vec<String> = vec![];
        loop {
            match toks.get(i) {
                Some(Tok::Close) => {
                    i += 1;
                    break;
                }
                Some(Tok::Word(_arg)) => {
                    let (Some(Tok::Colon), Some(Tok::Word(ty))) = (toks.get(i + 1), toks.get(i + 2)) else {
                        return Err(format!("malformed argument list of {name}"));
                    };
                    types.push(ty.clone());
                    i += 3;
                }
                other => return Err(format!("malformed argument list of {name}: {other:?}")),
            }
        }
        let tr: Vec<&str> = types.iter().map(|s| s.as_str()).collect();
        let shape = Shape::from_arg_types(&tr).ok_or_else(|| format!("unknown argument shape {types:?} for {name}"))?;
        ops.push(OpInfo { byte, name: name.clone(), ctor: ctor.clone(), shape });
    }
    if ops.is_empty() {
        return Err("no rows parsed".into());
    }
    Ok(ops)
}

/// boundary values of a `bits`-wide field: 0,1,2, mid-1, mid, mid+1, max-1, max and every single bit
pub fn field_lattice(bits: u32) -> Vec<u32> {
    let max = (1u32 << bits) - 1;
    let mid = 1u32 << (bits - 1);
    let mut v = vec![0, 1, 2, mid - 1, mid, mid + 1, max - 1, max];
    for k in 0..bits {
        v.push(1 << k);
    }
    // alternating patterns
    v.push(0x00AA_AAAA & max);
    v.push(0x0055_5555 & max);
    v.sort();
    v.dedup();
    v
}

#[cfg(test)]
mod tests {
    use super::*;
    #[test]
    fn parser() {
        let src = "// impl_instructions! { in a comment\nmacro_rules! x { () => {} }\nimpl_instructions! {\n    \"Adds [two] \\\"registers\\\".\"\n    0x10 ADD add [dst: RegId lhs: RegId rhs: RegId]\n    \"No\"\n    0x47 NOOP noop []\n    \"Imm\"\n    0x72 MOVI movi [dst: RegId val: Imm18]\n}\n\nimpl Foo {\n}\n";
        let ops = parse_decl(src).unwrap();
        assert_eq!(ops.len(), 3);
        assert_eq!((ops[0].byte, ops[0].name.as_str(), ops[0].ctor.as_str(), ops[0].shape), (0x10, "ADD", "add", Shape::RRR));
        assert_eq!(ops[1].shape, Shape::N);
        assert_eq!(ops[2].shape, Shape::RI18);
        assert!(parse_decl("fn main() {}").is_err());
        // the snapshot is a well-formed table
        let t = Table::from_ops(&snapshot()).unwrap();
        assert_eq!(t.defined().count(), snapshot().len());
    }
    #[test]
    fn masks() {
        assert_eq!(Shape::N.reserved_mask(), 0xFF_FFFF);
        assert_eq!(Shape::R.reserved_mask(), 0x3_FFFF);
        assert_eq!(Shape::RR.reserved_mask(), 0xFFF);
        assert_eq!(Shape::RRR.reserved_mask(), 0x3F);
        for s in [Shape::RRRR, Shape::RRRI6, Shape::RRI12, Shape::RI18, Shape::I24] {
            assert_eq!(s.reserved_mask(), 0);
        }
    }
}
