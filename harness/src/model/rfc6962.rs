//! RFC 6962 / RFC 9162 reference: Merkle tree hash, audit paths and their verification.
//! Written from the RFC text; uses only SHA-256 from RustCrypto.
use sha2::{Digest, Sha256};

pub type H = [u8; 32];

pub fn empty() -> H {
    Sha256::digest([]).into()
}

pub fn leaf_hash(d: &[u8]) -> H {
    let mut h = Sha256::new();
    h.update([0u8]);
    h.update(d);
    h.finalize().into()
}

pub fn node_hash(l: &H, r: &H) -> H {
    let mut h = Sha256::new();
    h.update([1u8]);
    h.update(l);
    h.update(r);
    h.finalize().into()
}

/// largest power of two strictly smaller than n (n >= 2)
fn split(n: usize) -> usize {
    debug_assert!(n >= 2);
    let mut k = 1usize;
    while k * 2 < n {
        k *= 2;
    }
    k
}

/// MTH over already-hashed leaves
pub fn mth_hashed(leaves: &[H]) -> H {
    match leaves.len() {
        0 => empty(),
        1 => leaves[0],
        n => {
            let k = split(n);
            node_hash(&mth_hashed(&leaves[..k]), &mth_hashed(&leaves[k..]))
        }
    }
}

pub fn mth<T: AsRef<[u8]>>(leaves: &[T]) -> H {
    let hs: Vec<H> = leaves.iter().map(|l| leaf_hash(l.as_ref())).collect();
    mth_hashed(&hs)
}

/// PATH(m, D[n]) of RFC 6962 §2.1.1, leaf-to-root order.
pub fn audit_path_hashed(m: usize, leaves: &[H]) -> Vec<H> {
    let n = leaves.len();
    assert!(m < n);
    if n == 1 {
        return vec![];
    }
    let k = split(n);
    if m < k {
        let mut p = audit_path_hashed(m, &leaves[..k]);
        p.push(mth_hashed(&leaves[k..]));
        p
    } else {
        let mut p = audit_path_hashed(m - k, &leaves[k..]);
        p.push(mth_hashed(&leaves[..k]));
        p
    }
}

pub fn audit_path<T: AsRef<[u8]>>(m: usize, leaves: &[T]) -> Vec<H> {
    let hs: Vec<H> = leaves.iter().map(|l| leaf_hash(l.as_ref())).collect();
    audit_path_hashed(m, &hs)
}

/// RFC 9162 §2.1.3.2 "Verifying an Inclusion Proof".
pub fn verify_audit_path(root: &H, leaf_data: &[u8], path: &[H], index: u64, tree_size: u64) -> bool {
    if index >= tree_size {
        return false;
    }
    let mut fnode = index;
    let mut sn = tree_size - 1;
    let mut r = leaf_hash(leaf_data);
    for p in path {
        if sn == 0 {
            return false;
        }
        if fnode & 1 == 1 || fnode == sn {
            r = node_hash(p, &r);
            if fnode & 1 == 0 {
                // right-shift until LSB(fn) set or fn == 0
                while fnode & 1 == 0 && fnode != 0 {
                    fnode >>= 1;
                    sn >>= 1;
                }
            }
        } else {
            r = node_hash(&r, p);
        }
        fnode >>= 1;
        sn >>= 1;
    }
    sn == 0 && &r == root
}

#[cfg(test)]
mod tests {
    use super::*;
    #[test]
    fn selfcheck() {
        for n in 1..40usize {
            let leaves: Vec<Vec<u8>> = (0..n).map(|i| vec![i as u8; i % 5]).collect();
            let root = mth(&leaves);
            for i in 0..n {
                let p = audit_path(i, &leaves);
                assert!(verify_audit_path(&root, &leaves[i], &p, i as u64, n as u64), "{n} {i}");
                if n > 1 {
                    assert!(!verify_audit_path(&root, &leaves[i], &p[..p.len() - 1], i as u64, n as u64));
                }
            }
        }
    }
}
