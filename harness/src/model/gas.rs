//! model::gas — independent evaluator of the gas schedule (C26, DESIGN.md Appendix A).
//!
//! Nothing here calls `fuel-vm` or `fuel-asm`.  The *numbers* come from the serialized form of the
//! world's `GasCosts` (a JSON object: one key per schedule field, fixed costs are numbers,
//! dependent costs are `{"LightOperation":{base,units_per_gas}}` / `{"HeavyOperation":{base,
//! gas_per_unit}}`), the *classes* (which field an opcode is charged from and which argument a
//! dependent cost depends on) are written down here by hand from the schedule's documented
//! meaning, decoding uses the harness's own opcode table (`model::isa`).
//!
//! `evaluate` is a pure function of (instruction word, pre-state registers / memory, the
//! harness-side world mirror): it returns the total expected charge of the instruction assuming
//! it completes, plus the effects the instruction has on the mirror when it completes (new
//! balance entries, slot lengths, hot set).  Totals are unbounded integers (u128): the
//! implementation saturates at `u64::MAX`, which is indistinguishable for the oracle because
//! `$cgas < u64::MAX`.

use super::isa::Shape;
use sha2::{Digest, Sha256};
use std::collections::{BTreeMap, BTreeSet};

pub type Id = [u8; 32];

#[derive(Clone, Copy, Debug, PartialEq, Eq)]
pub enum Dep {
    /// `units_per_gas` units are processed per unit of gas
    Light { base: u64, units_per_gas: u64 },
    /// every unit costs `gas_per_unit`
    Heavy { base: u64, gas_per_unit: u64 },
}

impl Dep {
    pub fn base(&self) -> u64 {
        match self {
            Dep::Light { base, .. } | Dep::Heavy { base, .. } => *base,
        }
    }
    /// the unit-dependent part, without the base
    pub fn per(&self, units: u64) -> u128 {
        match self {
            // `units_per_gas == 0` is documented as invalid; never generated
            Dep::Light { units_per_gas, .. } => (units / (*units_per_gas).max(1)) as u128,
            Dep::Heavy { gas_per_unit, .. } => units as u128 * *gas_per_unit as u128,
        }
    }
    pub fn full(&self, units: u64) -> u128 {
        self.base() as u128 + self.per(units)
    }
}

/// the schedule as a name → value table
#[derive(Clone, Debug, Default)]
pub struct Schedule {
    pub fixed: BTreeMap<String, u64>,
    pub dep: BTreeMap<String, Dep>,
    /// per opcode byte: cost of the fixed-cost opcodes (filled by `from_json`)
    fixed_by_byte: Vec<Option<u64>>,
}

impl Schedule {
    /// `v` = serde_json form of `GasCosts` / `GasCostsValues` (`{"V7": {...}}`)
    pub fn from_json(v: &serde_json::Value) -> Result<Schedule, String> {
        let top = v.as_object().ok_or("gas costs: not an object")?;
        if top.len() != 1 {
            return Err(format!("gas costs: expected one version key, got {}", top.len()));
        }
        let fields = top.values().next().and_then(|x| x.as_object()).ok_or("gas costs: version payload not an object")?;
        let mut s = Schedule::default();
        for (k, x) in fields {
            if let Some(n) = x.as_u64() {
                s.fixed.insert(k.clone(), n);
            } else if let Some(o) = x.as_object() {
                let (kind, body) = o.iter().next().ok_or_else(|| format!("gas costs: empty dependent cost {k}"))?;
                let base = body.get("base").and_then(|b| b.as_u64()).ok_or_else(|| format!("gas costs: {k}.base"))?;
                let d = match kind.as_str() {
                    "LightOperation" => Dep::Light { base, units_per_gas: body.get("units_per_gas").and_then(|b| b.as_u64()).ok_or_else(|| format!("gas costs: {k}.units_per_gas"))? },
                    "HeavyOperation" => Dep::Heavy { base, gas_per_unit: body.get("gas_per_unit").and_then(|b| b.as_u64()).ok_or_else(|| format!("gas costs: {k}.gas_per_unit"))? },
                    other => return Err(format!("gas costs: unknown dependent kind {other} for {k}")),
                };
                s.dep.insert(k.clone(), d);
            } else {
                return Err(format!("gas costs: field {k} is neither number nor object"));
            }
        }
        s.fixed_by_byte = (0..=255u8).map(|b| ops()[b as usize].and_then(|(name, _)| fixed_field(name)).and_then(|f| s.f(f))).collect();
        Ok(s)
    }
    pub fn f(&self, name: &str) -> Option<u64> {
        self.fixed.get(name).copied()
    }
    pub fn d(&self, name: &str) -> Option<Dep> {
        self.dep.get(name).copied()
    }
    /// smallest amount any single instruction can be charged under this schedule
    /// (over the opcode fields; the non-opcode fields are not instruction charges)
    pub fn min_instruction_charge(&self) -> u64 {
        const NON_OPCODE: &[&str] = &["contract_root", "state_root", "new_storage_per_byte", "vm_initialization", "storage_read_cold", "storage_read_hot", "storage_write", "storage_clear"];
        let a = self.fixed.iter().filter(|(k, _)| !NON_OPCODE.contains(&k.as_str())).map(|(_, v)| *v).min().unwrap_or(0);
        let b = self.dep.iter().filter(|(k, _)| !NON_OPCODE.contains(&k.as_str())).map(|(_, v)| v.base()).min().unwrap_or(0);
        a.min(b)
    }
}

/// size of a `(asset id, balance)` entry charged at `new_storage_per_byte`
pub const BALANCE_ENTRY_BYTES: u64 = 32 + 8;

/// harness-side mirror of the state the state-dependent classes depend on
#[derive(Clone, Debug, Default)]
pub struct Mirror {
    /// byte length of the code of every contract in storage
    pub contract_len: BTreeMap<Id, u64>,
    pub blob_len: BTreeMap<Id, u64>,
    /// existing `(contract, asset)` balance entries (a zero balance is still an entry)
    pub balance_entries: BTreeSet<(Id, Id)>,
    /// byte length of every existing slot `(contract, key)`; absent = no slot
    pub slot_len: BTreeMap<(Id, Id), u64>,
    /// slots already touched in this transaction
    pub hot: BTreeSet<(Id, Id)>,
}

#[derive(Clone, Debug, PartialEq, Eq)]
pub enum Effect {
    BalanceEntry(Id, Id),
    Touch(Id, Id),
    /// `None` = slot removed
    SetSlot(Id, Id, Option<u64>),
}

impl Mirror {
    pub fn apply(&mut self, e: &Effect) {
        match e {
            Effect::BalanceEntry(c, a) => {
                self.balance_entries.insert((*c, *a));
            }
            Effect::Touch(c, k) => {
                self.hot.insert((*c, *k));
            }
            Effect::SetSlot(c, k, v) => {
                self.hot.insert((*c, *k));
                match v {
                    Some(n) => {
                        self.slot_len.insert((*c, *k), *n);
                    }
                    None => {
                        self.slot_len.remove(&(*c, *k));
                    }
                }
            }
        }
    }
}

/// read access to the machine state before the instruction
pub trait Pre {
    fn reg(&self, i: u32) -> u64;
    fn mem(&self, addr: u64, len: usize) -> Option<Vec<u8>>;
    /// id of the contract whose frame is on top of the call stack (None in the script)
    fn current_contract(&self) -> Option<Id>;
}

#[derive(Clone, Debug)]
pub struct Eval {
    /// mnemonic (or "?" when undecodable)
    pub op: &'static str,
    /// cost class label (coverage statistics)
    pub class: &'static str,
    /// total charge if the instruction completes.  When an operand needed for a later part of
    /// the charge is unavailable (unreadable id, unknown contract, external context for an
    /// internal-only instruction) the instruction cannot complete and this is the charge of the
    /// parts before it — still an upper bound of what may have been charged.
    pub cost: Option<u128>,
    /// evaluation stopped early because the running total already exceeded `budget`
    pub truncated: bool,
    pub effects: Vec<Effect>,
}

/// opcode byte → (mnemonic, argument shape), from the harness's own ISA snapshot
fn ops() -> &'static [Option<(&'static str, Shape)>; 256] {
    use std::sync::OnceLock;
    static T: OnceLock<[Option<(&'static str, Shape)>; 256]> = OnceLock::new();
    T.get_or_init(|| {
        macro_rules! table { ($($b:literal $N:ident $n:ident $s:ident),* $(,)?) => {{
            let mut t: [Option<(&'static str, Shape)>; 256] = [None; 256];
            $( t[$b as usize] = Some((stringify!($N), Shape::$s)); )*
            t
        }}; }
        crate::for_each_op!(table)
    })
}

fn id_at(p: &dyn Pre, addr: u64) -> Option<Id> {
    let v = p.mem(addr, 32)?;
    let mut a = [0u8; 32];
    a.copy_from_slice(&v);
    Some(a)
}

/// round up to a multiple of 8 (None on overflow)
fn padded(x: u64) -> Option<u64> {
    x.checked_add(7).map(|y| y & !7)
}

/// asset id minted by `contract` for `sub_id` (specification: sha256(contract ‖ sub id))
pub fn minted_asset(contract: &Id, sub: &Id) -> Id {
    let mut h = Sha256::new();
    h.update(contract);
    h.update(sub);
    h.finalize().into()
}

fn key_add(k: &Id, i: u64) -> Option<Id> {
    let mut out = *k;
    let mut carry = i as u128;
    for b in (0..32).rev() {
        if carry == 0 {
            break;
        }
        let s = out[b] as u128 + (carry & 0xff);
        out[b] = (s & 0xff) as u8;
        carry = (carry >> 8) + (s >> 8);
    }
    if carry != 0 { None } else { Some(out) }
}

/// fixed-cost opcodes: mnemonic → schedule field
fn fixed_field(op: &str) -> Option<&'static str> {
    Some(match op {
        // own field
        "ADD" => "add", "ADDI" => "addi", "AND" => "and", "ANDI" => "andi", "DIV" => "div", "DIVI" => "divi", "EQ" => "eq",
        "EXP" => "exp", "EXPI" => "expi", "GT" => "gt", "LT" => "lt", "MLOG" => "mlog", "MOD" => "mod", "MODI" => "modi",
        "MOVE" => "move", "MOVI" => "movi", "MROO" => "mroo", "MUL" => "mul", "MULI" => "muli", "MLDV" => "mldv", "NOOP" => "noop",
        "NOT" => "not", "OR" => "or", "ORI" => "ori", "SLL" => "sll", "SLLI" => "slli", "SRL" => "srl", "SRLI" => "srli",
        "SUB" => "sub", "SUBI" => "subi", "XOR" => "xor", "XORI" => "xori", "NIOP" => "niop",
        "WDCM" => "wdcm", "WQCM" => "wqcm", "WDOP" => "wdop", "WQOP" => "wqop", "WDML" => "wdml", "WQML" => "wqml", "WDDV" => "wddv",
        "WQDV" => "wqdv", "WDMD" => "wdmd", "WQMD" => "wqmd", "WDAM" => "wdam", "WQAM" => "wqam", "WDMM" => "wdmm", "WQMM" => "wqmm",
        "JI" => "ji", "JNEI" => "jnei", "JNZI" => "jnzi", "JMP" => "jmp", "JNE" => "jne", "JMPF" => "jmpf", "JMPB" => "jmpb",
        "JNZF" => "jnzf", "JNZB" => "jnzb", "JNEF" => "jnef", "JNEB" => "jneb",
        "RET" => "ret_contract", "RVRT" => "rvrt_contract", "CFSI" => "cfsi",
        "PSHL" => "pshl", "PSHH" => "pshh", "POPL" => "popl", "POPH" => "poph",
        "LB" => "lb", "LW" => "lw", "SB" => "sb", "SW" => "sw",
        "BAL" => "bal", "BHEI" => "bhei", "BHSH" => "bhsh", "BURN" => "burn", "CB" => "cb", "LOG" => "log", "TIME" => "time",
        "ECK1" => "eck1", "ECR1" => "ecr1", "FLAG" => "flag", "GM" => "gm", "GTF" => "gtf", "TRO" => "tro", "ECOP" => "ecop",
        // shared field
        "JAL" => "jmp", "CFS" => "cfsi", "LQW" | "LHW" => "lw", "SQW" | "SHW" => "sw",
        _ => return None,
    })
}

/// which operand a dependent cost depends on
#[derive(Clone, Copy)]
enum Arg {
    /// value of the register named by field i
    Reg(usize),
    /// the immediate (last field)
    Imm,
}

fn dependent_field(op: &str) -> Option<(&'static str, Arg)> {
    Some(match op {
        "RETD" => ("retd_contract", Arg::Reg(1)),
        "ALOC" => ("aloc", Arg::Reg(0)),
        "CFEI" => ("cfei", Arg::Imm),
        "CFE" => ("cfe", Arg::Reg(0)),
        "MCL" => ("mcl", Arg::Reg(1)),
        "MCLI" => ("mcli", Arg::Imm),
        "MCP" => ("mcp", Arg::Reg(2)),
        "MCPI" => ("mcpi", Arg::Imm),
        "MEQ" => ("meq", Arg::Reg(3)),
        "LOGD" => ("logd", Arg::Reg(3)),
        "SMO" => ("smo", Arg::Reg(2)),
        "K256" => ("k256", Arg::Reg(2)),
        "S256" => ("s256", Arg::Reg(2)),
        "ED19" => ("ed19", Arg::Reg(3)),
        "EPAR" => ("epar", Arg::Reg(2)),
        _ => return None,
    })
}

struct Acc<'a> {
    s: &'a Schedule,
    m: &'a Mirror,
    total: u128,
    budget: u128,
    truncated: bool,
    effects: Vec<Effect>,
    /// slot lengths / hot set as modified by the earlier micro-ops of this instruction
    local_len: BTreeMap<(Id, Id), Option<u64>>,
    local_hot: BTreeSet<(Id, Id)>,
}

impl Acc<'_> {
    fn add(&mut self, x: u128) -> bool {
        self.total = self.total.saturating_add(x);
        if self.total > self.budget {
            self.truncated = true;
        }
        !self.truncated
    }
    fn len_of(&self, c: &Id, k: &Id) -> u64 {
        match self.local_len.get(&(*c, *k)) {
            Some(v) => v.unwrap_or(0),
            None => self.m.slot_len.get(&(*c, *k)).copied().unwrap_or(0),
        }
    }
    fn is_hot(&self, c: &Id, k: &Id) -> bool {
        self.local_hot.contains(&(*c, *k)) || self.m.hot.contains(&(*c, *k))
    }
    /// charged read of one slot
    fn read(&mut self, c: &Id, k: &Id) -> Option<bool> {
        let len = self.len_of(c, k);
        let d = if self.is_hot(c, k) { self.s.d("storage_read_hot")? } else { self.s.d("storage_read_cold")? };
        self.local_hot.insert((*c, *k));
        self.effects.push(Effect::Touch(*c, *k));
        Some(self.add(d.full(len)))
    }
    /// write of `new_len` bytes to one slot
    fn write(&mut self, c: &Id, k: &Id, new_len: u64) -> Option<bool> {
        let old = self.len_of(c, k);
        let w = self.s.d("storage_write")?;
        let per_byte = self.s.f("new_storage_per_byte")?;
        self.local_hot.insert((*c, *k));
        self.local_len.insert((*c, *k), Some(new_len));
        self.effects.push(Effect::SetSlot(*c, *k, Some(new_len)));
        let grow = new_len.saturating_sub(old);
        Some(self.add(w.full(new_len) + per_byte as u128 * grow as u128))
    }
    fn clear(&mut self, c: &Id, k: &Id, n: u64) -> Option<bool> {
        let d = self.s.d("storage_clear")?;
        let ok = self.add(d.full(n));
        if ok {
            if n > MAX_RANGE {
                return None;
            }
            for i in 0..n {
                match key_add(k, i) {
                    Some(ki) => {
                        self.local_len.insert((*c, ki), None);
                        self.local_hot.insert((*c, ki));
                        self.effects.push(Effect::SetSlot(*c, ki, None));
                    }
                    None => break,
                }
            }
        }
        Some(ok)
    }
}

/// ranges larger than this are not mirrored (the evaluation returns "unknown")
pub const MAX_RANGE: u64 = 1 << 20;

/// Evaluate the expected charge of the instruction `word` in pre-state `p`.
/// `budget` = `$cgas` before the instruction: the evaluation of multi-part charges stops as soon
/// as the running total exceeds it (the instruction cannot complete then).
pub fn evaluate(s: &Schedule, m: &Mirror, word: u32, p: &dyn Pre, budget: u64) -> Eval {
    let byte = (word >> 24) as u8;
    let none = |op, class| Eval { op, class, cost: None, truncated: false, effects: vec![] };
    let Some((op, shape)) = ops()[byte as usize] else {
        return Eval { op: "?", class: "none:undefined-opcode", cost: Some(0), truncated: false, effects: vec![] };
    };
    if word & shape.reserved_mask() != 0 {
        return Eval { op, class: "none:reserved-bits", cost: Some(0), truncated: false, effects: vec![] };
    }
    // fast path: fixed-cost opcodes without mirror effects
    if let Some(c) = s.fixed_by_byte.get(byte as usize).copied().flatten() {
        if op != "BURN" {
            let class = match op {
                "JAL" | "CFS" | "LQW" | "LHW" | "SQW" | "SHW" => "fixed-shared",
                _ => "fixed",
            };
            return Eval { op, class, cost: Some(c as u128), truncated: false, effects: vec![] };
        }
    }
    let f = shape.extract(word);
    let fields = f.as_slice();
    let regv = |i: usize| p.reg(fields[i]);
    let imm = || *fields.last().unwrap_or(&0) as u64;
    let exact = |class, c: u128| Eval { op, class, cost: Some(c), truncated: false, effects: vec![] };

    if op == "ECAL" {
        // no handler installed: the instruction fails before anything is charged
        return exact("none:ecal", 0);
    }
    if let Some(field) = fixed_field(op) {
        let class = match op {
            "JAL" | "CFS" | "LQW" | "LHW" | "SQW" | "SHW" => "fixed-shared",
            "BURN" => "fixed-burn",
            _ => "fixed",
        };
        let Some(c) = s.f(field) else { return none(op, class) };
        let mut e = exact(class, c as u128);
        if op == "BURN" {
            // a successful burn (re)writes the balance entry, creating it when absent (burn of 0)
            if let (Some(cur), Some(sub)) = (p.current_contract(), id_at(p, regv(1))) {
                e.effects.push(Effect::BalanceEntry(cur, minted_asset(&cur, &sub)));
            }
        }
        return e;
    }
    if let Some((field, arg)) = dependent_field(op) {
        let Some(d) = s.d(field) else { return none(op, "dependent") };
        let mut units = match arg {
            Arg::Reg(i) => regv(i),
            Arg::Imm => imm(),
        };
        if op == "ED19" && units == 0 {
            units = 32;
        }
        return exact("dependent", d.full(units));
    }

    let per_entry = |s: &Schedule| s.f("new_storage_per_byte").map(|x| x as u128 * BALANCE_ENTRY_BYTES as u128);
    match op {
        "CALL" => {
            let Some(d) = s.d("call") else { return none(op, "call") };
            let mut total = d.base() as u128;
            // Call struct: to (32) ‖ a (8) ‖ b (8); the whole struct must be readable
            let Some(call) = p.mem(regv(0), 48) else { return exact("call", total) };
            let mut to = [0u8; 32];
            to.copy_from_slice(&call[..32]);
            let Some(asset) = id_at(p, regv(2)) else { return exact("call", total) };
            let Some(len) = m.contract_len.get(&to) else { return exact("call", total) };
            let Some(pl) = padded(*len) else { return exact("call", total) };
            total += d.per(pl);
            let amount = regv(1);
            let mut effects = vec![];
            if amount > 0 {
                if !m.balance_entries.contains(&(to, asset)) {
                    let Some(x) = per_entry(s) else { return none(op, "call") };
                    total += x;
                }
                effects.push(Effect::BalanceEntry(to, asset));
            }
            Eval { op, class: "call", cost: Some(total), truncated: false, effects }
        }
        "LDC" => {
            let Some(d) = s.d("ldc") else { return none(op, "ldc") };
            let base = d.base() as u128;
            let mode = imm();
            let len_unpadded = regv(2);
            match mode {
                0 | 1 => {
                    let Some(id) = id_at(p, regv(0)) else { return exact("ldc", base) };
                    let table = if mode == 0 { &m.contract_len } else { &m.blob_len };
                    let Some(size) = table.get(&id) else { return exact("ldc", base) };
                    let pl = padded(len_unpadded).unwrap_or(u64::MAX);
                    exact("ldc", base + d.per(pl.max(*size)))
                }
                2 => {
                    if len_unpadded == 0 {
                        exact("ldc", base)
                    } else {
                        exact("ldc", base + d.per(padded(len_unpadded).unwrap_or(u64::MAX)))
                    }
                }
                _ => exact("ldc", base),
            }
        }
        "CCP" | "CSIZ" | "CROO" => {
            let (field, class) = match op { "CCP" => ("ccp", "ccp"), "CSIZ" => ("csiz", "csiz/croo"), _ => ("croo", "csiz/croo") };
            let Some(d) = s.d(field) else { return none(op, class) };
            let base = d.base() as u128;
            let Some(id) = id_at(p, regv(1)) else { return exact(class, base) };
            let Some(size) = m.contract_len.get(&id) else { return exact(class, base) };
            let units = if op == "CCP" { regv(3).max(*size) } else { *size };
            exact(class, base + d.per(units))
        }
        "BSIZ" | "BLDD" => {
            let (field, class) = if op == "BSIZ" { ("bsiz", "bsiz/bldd") } else { ("bldd", "bsiz/bldd") };
            let Some(d) = s.d(field) else { return none(op, class) };
            let base = d.base() as u128;
            let Some(id) = id_at(p, regv(1)) else { return exact(class, base) };
            let Some(size) = m.blob_len.get(&id) else { return exact(class, base) };
            let units = if op == "BLDD" { regv(3).max(*size) } else { *size };
            exact(class, base + d.per(units))
        }
        "TR" => {
            let Some(c) = s.f("tr") else { return none(op, "tr/mint") };
            let mut total = c as u128;
            let (Some(dest), Some(asset)) = (id_at(p, regv(0)), id_at(p, regv(2))) else { return exact("tr/mint", total) };
            if !m.balance_entries.contains(&(dest, asset)) {
                let Some(x) = per_entry(s) else { return none(op, "tr/mint") };
                total += x;
            }
            Eval { op, class: "tr/mint", cost: Some(total), truncated: false, effects: vec![Effect::BalanceEntry(dest, asset)] }
        }
        "MINT" => {
            let Some(c) = s.f("mint") else { return none(op, "tr/mint") };
            let mut total = c as u128;
            let (Some(cur), Some(sub)) = (p.current_contract(), id_at(p, regv(1))) else { return exact("tr/mint", total) };
            let asset = minted_asset(&cur, &sub);
            if !m.balance_entries.contains(&(cur, asset)) {
                let Some(x) = per_entry(s) else { return none(op, "tr/mint") };
                total += x;
            }
            Eval { op, class: "tr/mint", cost: Some(total), truncated: false, effects: vec![Effect::BalanceEntry(cur, asset)] }
        }
        "SCWQ" | "SRW" | "SRWQ" | "SWW" | "SWWQ" | "SCLR" | "SRDD" | "SRDI" | "SWRD" | "SWRI" | "SUPD" | "SUPI" | "SPLD" => {
            let class = "storage";
            let Some(noop) = s.f("noop") else { return none(op, class) };
            let mut a = Acc { s, m, total: 0, budget: budget as u128, truncated: false, effects: vec![], local_len: BTreeMap::new(), local_hot: BTreeSet::new() };
            a.add(noop as u128);
            // operand positions: (key pointer field, …)
            let key_field = match op {
                "SCWQ" | "SWW" | "SWWQ" | "SCLR" | "SWRD" | "SWRI" | "SUPD" | "SUPI" => 0,
                "SRW" | "SRWQ" => 2,
                _ => 1, // SRDD SRDI SPLD
            };
            let done = |a: Acc| Eval { op, class, cost: Some(a.total), truncated: a.truncated, effects: a.effects };
            let (Some(key), Some(cur)) = (id_at(p, regv(key_field)), p.current_contract()) else { return done(a) };
            if a.truncated {
                return done(a);
            }
            let r: Option<()> = (|| {
                match op {
                    "SRW" | "SRDD" | "SRDI" | "SPLD" => {
                        a.read(&cur, &key)?;
                    }
                    "SRWQ" | "SCWQ" | "SWWQ" => {
                        let n = if op == "SCWQ" { regv(2) } else { regv(3) };
                        let mut i = 0u64;
                        while i < n {
                            if i >= MAX_RANGE {
                                return None;
                            }
                            let Some(k) = key_add(&key, i) else { return Some(()) };
                            if !a.read(&cur, &k)? {
                                return Some(());
                            }
                            if op == "SWWQ" && !a.write(&cur, &k, 32)? {
                                return Some(());
                            }
                            i += 1;
                        }
                        if op == "SCWQ" {
                            a.clear(&cur, &key, n)?;
                        }
                    }
                    "SWW" => {
                        if a.read(&cur, &key)? {
                            a.write(&cur, &key, 32)?;
                        }
                    }
                    "SCLR" => {
                        a.clear(&cur, &key, regv(1))?;
                    }
                    "SWRD" | "SWRI" => {
                        let len = if op == "SWRD" { regv(2) } else { imm() };
                        // the old length is looked up without charge, which warms the slot
                        a.effects.push(Effect::Touch(cur, key));
                        a.write(&cur, &key, len)?;
                    }
                    "SUPD" | "SUPI" => {
                        let (off, wl) = if op == "SUPD" { (regv(2), regv(3)) } else { (regv(2), imm()) };
                        if a.read(&cur, &key)? {
                            let old = a.len_of(&cur, &key);
                            let off = if off == u64::MAX { old } else { off };
                            let after = off.saturating_add(wl).max(old);
                            a.write(&cur, &key, after)?;
                        }
                    }
                    _ => return None,
                }
                Some(())
            })();
            match r {
                Some(()) => done(a),
                None => none(op, class),
            }
        }
        _ => none(op, "unclassified"),
    }
}
