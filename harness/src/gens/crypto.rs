//! Byte-level generators, constants and input constructors for the signature properties
//! (C16, C17). Nothing here calls the code under test except `vm_crypto`, which drives the
//! VM's ECK1/ECR1/ED19 instructions and returns what they report.
use proptest::prelude::*;
use serde::{Deserialize, Deserializer, Serialize, Serializer};

// ------------------------------------------------------------------ hex-serialised bytes

/// fixed-size byte string, serialised as a hex string (readable replay files; arrays > 32
/// have no serde impl)
#[derive(Clone, Copy, PartialEq, Eq, Hash, PartialOrd, Ord)]
pub struct Hx<const N: usize>(pub [u8; N]);

impl<const N: usize> std::fmt::Debug for Hx<N> {
    fn fmt(&self, f: &mut std::fmt::Formatter<'_>) -> std::fmt::Result {
        write!(f, "{}", hex::encode(self.0))
    }
}
impl<const N: usize> Serialize for Hx<N> {
    fn serialize<S: Serializer>(&self, s: S) -> Result<S::Ok, S::Error> {
        s.serialize_str(&hex::encode(self.0))
    }
}
impl<'de, const N: usize> Deserialize<'de> for Hx<N> {
    fn deserialize<D: Deserializer<'de>>(d: D) -> Result<Self, D::Error> {
        let s = String::deserialize(d)?;
        let v = hex::decode(&s).map_err(serde::de::Error::custom)?;
        let a: [u8; N] = v.try_into().map_err(|_| serde::de::Error::custom("wrong length"))?;
        Ok(Hx(a))
    }
}

/// variable-size byte string, hex-serialised
#[derive(Clone, PartialEq, Eq, Hash)]
pub struct HxV(pub Vec<u8>);

impl std::fmt::Debug for HxV {
    fn fmt(&self, f: &mut std::fmt::Formatter<'_>) -> std::fmt::Result {
        write!(f, "{}", hex::encode(&self.0))
    }
}
impl Serialize for HxV {
    fn serialize<S: Serializer>(&self, s: S) -> Result<S::Ok, S::Error> {
        s.serialize_str(&hex::encode(&self.0))
    }
}
impl<'de> Deserialize<'de> for HxV {
    fn deserialize<D: Deserializer<'de>>(d: D) -> Result<Self, D::Error> {
        let s = String::deserialize(d)?;
        Ok(HxV(hex::decode(&s).map_err(serde::de::Error::custom)?))
    }
}

// ------------------------------------------------------------------ constants (big-endian)

const fn nib(c: u8) -> u8 {
    match c {
        b'0'..=b'9' => c - b'0',
        b'a'..=b'f' => c - b'a' + 10,
        b'A'..=b'F' => c - b'A' + 10,
        _ => panic!("bad hex digit"),
    }
}
pub const fn hx32(s: &str) -> [u8; 32] {
    let b = s.as_bytes();
    assert!(b.len() == 64);
    let mut out = [0u8; 32];
    let mut i = 0;
    while i < 32 {
        out[i] = (nib(b[2 * i]) << 4) | nib(b[2 * i + 1]);
        i += 1;
    }
    out
}

/// secp256k1 group order n
pub const K1_N: [u8; 32] = hx32("FFFFFFFFFFFFFFFFFFFFFFFFFFFFFFFEBAAEDCE6AF48A03BBFD25E8CD0364141");
/// floor(n/2) = (n-1)/2 : the largest low s
pub const K1_HALF_N: [u8; 32] = hx32("7FFFFFFFFFFFFFFFFFFFFFFFFFFFFFFF5D576E7357A4501DDFE92F46681B20A0");
/// secp256k1 field prime p
pub const K1_P: [u8; 32] = hx32("FFFFFFFFFFFFFFFFFFFFFFFFFFFFFFFFFFFFFFFFFFFFFFFFFFFFFFFEFFFFFC2F");
/// x coordinate of the secp256k1 generator
pub const K1_GX: [u8; 32] = hx32("79BE667EF9DCBBAC55A06295CE870B07029BFCDB2DCE28D959F2815B16F81798");
/// secp256r1 (P-256) group order n
pub const R1_N: [u8; 32] = hx32("FFFFFFFF00000000FFFFFFFFFFFFFFFFBCE6FAADA7179E84F3B9CAC2FC632551");
/// floor(n/2) for P-256
pub const R1_HALF_N: [u8; 32] = hx32("7FFFFFFF800000007FFFFFFFFFFFFFFFDE737D56D38BCF4279DCE5617E3192A8");
/// Ed25519 basepoint order L, *little-endian* (as scalars are encoded)
pub const ED_L_LE: [u8; 32] = {
    let be = hx32("1000000000000000000000000000000014DEF9DEA2F79CD65812631A5CF5D3ED");
    let mut le = [0u8; 32];
    let mut i = 0;
    while i < 32 {
        le[i] = be[31 - i];
        i += 1;
    }
    le
};
pub const ZERO32: [u8; 32] = [0u8; 32];
pub const MAX32: [u8; 32] = [0xffu8; 32];

/// a + d (wrapping), big-endian
pub fn be_add(mut a: [u8; 32], d: u64) -> [u8; 32] {
    let mut carry = d as u128;
    for i in (0..32).rev() {
        if carry == 0 {
            break;
        }
        let v = a[i] as u128 + (carry & 0xff);
        a[i] = v as u8;
        carry = (carry >> 8) + (v >> 8);
    }
    a
}

/// a - d (wrapping), big-endian
pub fn be_sub(mut a: [u8; 32], d: u64) -> [u8; 32] {
    let mut borrow = d as i128;
    for i in (0..32).rev() {
        if borrow == 0 {
            break;
        }
        let v = a[i] as i128 - (borrow & 0xff);
        borrow >>= 8;
        if v < 0 {
            a[i] = (v + 256) as u8;
            borrow += 1;
        } else {
            a[i] = v as u8;
        }
    }
    a
}

pub fn be_from_u64(d: u64) -> [u8; 32] {
    be_add(ZERO32, d)
}

/// 2^k as 32 big-endian bytes (k < 256)
pub fn be_pow2(k: usize) -> [u8; 32] {
    let mut a = ZERO32;
    a[31 - k / 8] = 1 << (k % 8);
    a
}

/// little-endian 256-bit addition; None on overflow past 2^256
pub fn le_add(a: [u8; 32], b: [u8; 32]) -> Option<[u8; 32]> {
    let mut out = [0u8; 32];
    let mut c = 0u16;
    for i in 0..32 {
        let v = a[i] as u16 + b[i] as u16 + c;
        out[i] = v as u8;
        c = v >> 8;
    }
    if c == 0 { Some(out) } else { None }
}

// ------------------------------------------------------------------ strategies

/// a scalar in [1, n-1] for a group order `n > 2^255`, biased towards both ends
pub fn scalar_below(n: [u8; 32], half: [u8; 32]) -> impl Strategy<Value = Hx<32>> {
    prop_oneof![
        6 => any::<[u8; 32]>().prop_map(move |mut b| {
            if b >= n {
                b[0] &= 0x7f;
            }
            if b == ZERO32 {
                b[31] = 1;
            }
            Hx(b)
        }),
        2 => (1u64..=2000).prop_map(|d| Hx(be_from_u64(d))),
        2 => (1u64..=2000).prop_map(move |d| Hx(be_sub(n, d))),
        1 => prop::sample::select(vec![
            be_from_u64(1), be_from_u64(2), be_sub(n, 1), be_sub(n, 2), half, be_add(half, 1), be_add(half, 2),
            be_sub(half, 1), be_pow2(255), be_sub(be_pow2(255), 1), be_pow2(128), be_pow2(64),
        ]).prop_map(Hx),
    ]
}

pub fn k1_secret() -> impl Strategy<Value = Hx<32>> {
    scalar_below(K1_N, K1_HALF_N)
}

pub fn r1_secret() -> impl Strategy<Value = Hx<32>> {
    scalar_below(R1_N, R1_HALF_N)
}

/// 32-byte message digests: uniform, plus the values around the group orders / field prime
/// where reduction mod n matters
pub fn msg32() -> impl Strategy<Value = Hx<32>> {
    prop_oneof![
        8 => any::<[u8; 32]>().prop_map(Hx),
        1 => prop::sample::select(vec![
            ZERO32, be_from_u64(1), be_sub(K1_N, 1), K1_N, be_add(K1_N, 1), K1_P, MAX32, be_pow2(255),
            be_sub(R1_N, 1), R1_N, be_add(R1_N, 1), K1_HALF_N,
        ]).prop_map(Hx),
        1 => (0usize..32, any::<u8>()).prop_map(|(i, b)| { let mut a = ZERO32; a[i] = b; Hx(a) }),
    ]
}

/// flip bit `i` (0..8*len) of a byte string; bit 0 is the most significant bit of byte 0
pub fn flip_bit(b: &mut [u8], i: usize) {
    b[i / 8] ^= 0x80 >> (i % 8);
}

/// index of the recovery/parity bit of a 64-byte compact signature in `flip_bit` numbering
pub const PARITY_BIT: usize = 32 * 8;

// ------------------------------------------------------------------ VM driver

/// What the VM's signature instructions reported for one set of inputs.
#[derive(Debug, Clone, PartialEq, Eq)]
pub struct VmCrypto {
    pub eck1: (u64, [u8; 64]),
    pub ecr1: (u64, [u8; 64]),
    pub ed19: u64,
}

/// Runs one script that executes ECK1(k1_sig,k1_msg), ECR1(r1_sig,r1_msg) and
/// ED19(ed_pk, ed_sig, ed_msg, len) and logs `$err` (and the 64 output bytes) after each.
/// `ed_len_reg`: the value put in the length register (0 means "32" to the instruction: it
/// then reads the first 32 bytes of `ed_msg` followed by 32 zero bytes of padding);
/// `ed_msg` must hold at least `ed_len_reg` bytes.
pub fn vm_crypto(
    k1_sig: &[u8; 64],
    k1_msg: &[u8; 32],
    r1_sig: &[u8; 64],
    r1_msg: &[u8; 32],
    ed_pk: &[u8; 32],
    ed_sig: &[u8; 64],
    ed_msg: &[u8],
    ed_len_reg: u32,
) -> Result<VmCrypto, String> {
    use fuel_asm::{op, GTFArgs, RegId};
    use fuel_tx::{Receipt, TransactionBuilder};
    use fuel_vm::checked_transaction::builder::TransactionBuilderExt;
    use fuel_vm::prelude::MemoryClient;

    let mut data = Vec::with_capacity(64 + 32 + 64 + 32 + 32 + 64 + ed_msg.len());
    data.extend_from_slice(k1_sig); // +0
    data.extend_from_slice(k1_msg); // +64
    data.extend_from_slice(r1_sig); // +96
    data.extend_from_slice(r1_msg); // +160
    data.extend_from_slice(ed_pk); // +192
    data.extend_from_slice(ed_sig); // +224
    data.extend_from_slice(ed_msg); // +288
    data.extend_from_slice(&[0u8; 32]); // padding: a zero length register makes ED19 read 32 bytes
    if ed_len_reg as usize > ed_msg.len() {
        return Err("ed_len_reg beyond message".into());
    }
    if ed_len_reg >= (1 << 18) {
        return Err("length does not fit MOVI".into());
    }
    #[rustfmt::skip]
    let script: Vec<u8> = vec![
        op::gtf_args(0x20, 0x00, GTFArgs::ScriptData),
        op::movi(0x10, 64),
        op::aloc(0x10),
        op::move_(0x11, RegId::HP),
        // ECK1
        op::addi(0x21, 0x20, 64),
        op::eck1(0x11, 0x20, 0x21),
        op::logd(RegId::ERR, RegId::ZERO, 0x11, 0x10),
        // ECR1
        op::addi(0x22, 0x20, 96),
        op::addi(0x23, 0x20, 160),
        op::ecr1(0x11, 0x22, 0x23),
        op::logd(RegId::ERR, RegId::ZERO, 0x11, 0x10),
        // ED19
        op::addi(0x24, 0x20, 192),
        op::addi(0x25, 0x20, 224),
        op::addi(0x26, 0x20, 288),
        op::movi(0x27, ed_len_reg),
        op::ed19(0x24, 0x25, 0x26, 0x27),
        op::log(RegId::ERR, RegId::ZERO, RegId::ZERO, RegId::ZERO),
        op::ret(RegId::ONE),
    ].into_iter().collect();

    let tx = TransactionBuilder::script(script, data)
        .script_gas_limit(10_000_000)
        .add_fee_input()
        .finalize_checked(Default::default());
    let mut client = MemoryClient::default();
    let receipts = client.transact(tx).to_vec();
    let mut logd: Vec<(u64, [u8; 64])> = vec![];
    let mut log: Vec<u64> = vec![];
    let mut ok = false;
    for r in &receipts {
        match r {
            Receipt::LogData { ra, data: Some(d), .. } => {
                let a: [u8; 64] = d.as_slice().try_into().map_err(|_| "logd length".to_string())?;
                logd.push((*ra, a));
            }
            Receipt::Log { ra, .. } => log.push(*ra),
            Receipt::Return { val: 1, .. } => ok = true,
            _ => {}
        }
    }
    if !ok || logd.len() != 2 || log.len() != 1 {
        return Err(format!("script did not complete as planned: {receipts:?}"));
    }
    Ok(VmCrypto { eck1: logd[0], ecr1: logd[1], ed19: log[0] })
}
