//! Shared proptest strategies.
use proptest::prelude::*;

/// byte-vector lengths hitting every class mod 8 and a few larger sizes
pub fn len_class() -> impl Strategy<Value = usize> {
    prop_oneof![
        4 => 0usize..=17,
        2 => prop::sample::select(vec![0usize, 1, 7, 8, 9, 15, 16, 17, 31, 32, 33, 63, 64, 65]),
        1 => 18usize..=130,
        1 => prop::sample::select(vec![255usize, 256, 257, 511, 512, 513, 1023, 1024, 1025]),
    ]
}

pub fn bytes_lc() -> impl Strategy<Value = Vec<u8>> {
    len_class().prop_flat_map(|n| prop::collection::vec(any::<u8>(), n))
}

pub fn small_bytes() -> impl Strategy<Value = Vec<u8>> {
    prop_oneof![
        3 => prop::collection::vec(any::<u8>(), 0..=40),
        1 => Just(vec![]),
        1 => prop::collection::vec(any::<u8>(), 31..=33),
    ]
}

/// boundary-biased u64
pub fn word() -> impl Strategy<Value = u64> {
    prop_oneof![
        3 => prop::sample::select(vec![0u64, 1, 2, 3, 7, 8, 9, 31, 32, 33, 63, 64, 65, 255, 256, 257,
            u16::MAX as u64, 1 << 16, u32::MAX as u64 - 1, u32::MAX as u64, 1u64 << 32, (1u64 << 32) + 1,
            i64::MAX as u64, 1u64 << 63, (1u64 << 63) + 1, u64::MAX - 1, u64::MAX]),
        2 => (0u32..64, 0u64..3).prop_map(|(k, d)| (1u64 << k).wrapping_add(d).wrapping_sub(1)),
        2 => any::<u64>(),
        2 => 0u64..1000,
    ]
}

pub fn bytes32() -> impl Strategy<Value = [u8; 32]> {
    prop_oneof![
        6 => any::<[u8; 32]>(),
        1 => Just([0u8; 32]),
        1 => Just([0xffu8; 32]),
        1 => (0usize..32, any::<u8>()).prop_map(|(i, b)| { let mut a = [0u8; 32]; a[i] = b; a }),
    ]
}

/// monotone index map: sel in 0..=65535 -> 0..n  (n > 0)
pub fn pick(sel: u16, n: usize) -> usize {
    ((sel as usize) * n) >> 16
}
pub mod tx;
pub mod tx_ext;
pub mod crypto;
pub mod validtx;
pub mod tx_extra;
