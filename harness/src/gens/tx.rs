//! G-TX: plain, serde-able *specs* of protocol values + proptest strategies + builders that
//! turn a spec into the library's types through public constructors only.
//! See DESIGN.md §2 (G-TX).  Documented aliasing restriction: predicate variants get a
//! non-empty predicate, message-data variants non-empty data.

use super::{bytes_lc, word};
use fuel_tx::field;
use fuel_tx::input::contract::Contract as InContract;
use fuel_tx::output::contract::Contract as OutContract;
use fuel_tx::policies::{Policies, PolicyType};
use fuel_tx::{
    BlobBody, Input, Mint, Output, PanicInstruction, Receipt, ScriptExecutionResult, StorageSlot,
    Transaction, TxPointer, UpgradePurpose, UploadBody, UtxoId, Witness,
};
use fuel_types::{Address, AssetId, BlobId, Bytes32, ContractId, Nonce, Salt, SubAssetId};
use proptest::prelude::*;
use serde::{Deserialize, Serialize};

// ------------------------------------------------------------------ B32: hex-serialised 32 bytes

#[derive(Clone, Copy, PartialEq, Eq, Hash, PartialOrd, Ord, Default)]
pub struct B32(pub [u8; 32]);

impl std::fmt::Debug for B32 {
    fn fmt(&self, f: &mut std::fmt::Formatter<'_>) -> std::fmt::Result {
        write!(f, "0x{}", hex::encode(self.0))
    }
}
impl Serialize for B32 {
    fn serialize<S: serde::Serializer>(&self, s: S) -> Result<S::Ok, S::Error> {
        s.serialize_str(&hex::encode(self.0))
    }
}
impl<'de> Deserialize<'de> for B32 {
    fn deserialize<D: serde::Deserializer<'de>>(d: D) -> Result<Self, D::Error> {
        let s = String::deserialize(d)?;
        let v = hex::decode(&s).map_err(serde::de::Error::custom)?;
        let a: [u8; 32] = v.try_into().map_err(|_| serde::de::Error::custom("len"))?;
        Ok(B32(a))
    }
}
macro_rules! b32_into {
    ($($t:ty),*) => {$(impl From<B32> for $t { fn from(b: B32) -> $t { <$t>::from(b.0) } })*};
}
b32_into!(Address, AssetId, BlobId, Bytes32, ContractId, Nonce, Salt, SubAssetId);

/// 32-byte ids from a small pool (so that equal ids / assets recur) or random
pub fn b32() -> impl Strategy<Value = B32> {
    prop_oneof![
        4 => (0u8..6).prop_map(|i| { let mut a = [0u8; 32]; if i > 0 { a = [i.wrapping_mul(37); 32]; a[31] = i; } B32(a) }),
        4 => any::<[u8; 32]>().prop_map(B32),
        1 => Just(B32([0xff; 32])),
    ]
}

/// hex-serialised byte vector (keeps replay files small)
#[derive(Clone, PartialEq, Eq, Hash, Default)]
pub struct HexBytes(pub Vec<u8>);
impl std::fmt::Debug for HexBytes {
    fn fmt(&self, f: &mut std::fmt::Formatter<'_>) -> std::fmt::Result {
        write!(f, "hex[{}]\"{}\"", self.0.len(), hex::encode(&self.0))
    }
}
impl Serialize for HexBytes {
    fn serialize<S: serde::Serializer>(&self, s: S) -> Result<S::Ok, S::Error> {
        s.serialize_str(&hex::encode(&self.0))
    }
}
impl<'de> Deserialize<'de> for HexBytes {
    fn deserialize<D: serde::Deserializer<'de>>(d: D) -> Result<Self, D::Error> {
        let s = String::deserialize(d)?;
        Ok(HexBytes(hex::decode(&s).map_err(serde::de::Error::custom)?))
    }
}

pub fn hexbytes() -> impl Strategy<Value = HexBytes> {
    bytes_lc().prop_map(HexBytes)
}
pub fn hexbytes_nonempty() -> impl Strategy<Value = HexBytes> {
    bytes_lc().prop_map(|mut v| {
        if v.is_empty() {
            v.push(0x24);
        }
        HexBytes(v)
    })
}

// ------------------------------------------------------------------ specs

#[derive(Debug, Clone, PartialEq, Eq, Hash, Serialize, Deserialize)]
pub struct PolSpec {
    /// 6-bit mask: Tip, WitnessLimit, Maturity, MaxFee, Expiration, Owner
    pub mask: u8,
    pub vals: [u64; 6],
}

#[derive(Debug, Clone, PartialEq, Eq, Hash, Serialize, Deserialize)]
pub struct UtxoSpec(pub B32, pub u16);
#[derive(Debug, Clone, PartialEq, Eq, Hash, Serialize, Deserialize)]
pub struct TxpSpec(pub u32, pub u16);

#[derive(Debug, Clone, PartialEq, Eq, Hash, Serialize, Deserialize)]
pub enum InSpec {
    CoinSigned { utxo: UtxoSpec, owner: B32, amount: u64, asset: B32, txp: TxpSpec, wit: u16 },
    CoinPredicate { utxo: UtxoSpec, owner: B32, amount: u64, asset: B32, txp: TxpSpec, gas: u64, predicate: HexBytes, pdata: HexBytes },
    Contract { utxo: UtxoSpec, balance_root: B32, state_root: B32, txp: TxpSpec, contract: B32 },
    MsgCoinSigned { sender: B32, recipient: B32, amount: u64, nonce: B32, wit: u16 },
    MsgCoinPredicate { sender: B32, recipient: B32, amount: u64, nonce: B32, gas: u64, predicate: HexBytes, pdata: HexBytes },
    MsgDataSigned { sender: B32, recipient: B32, amount: u64, nonce: B32, wit: u16, data: HexBytes },
    MsgDataPredicate { sender: B32, recipient: B32, amount: u64, nonce: B32, gas: u64, data: HexBytes, predicate: HexBytes, pdata: HexBytes },
}

impl InSpec {
    pub fn kind(&self) -> u8 {
        match self {
            InSpec::CoinSigned { .. } => 0,
            InSpec::CoinPredicate { .. } => 1,
            InSpec::Contract { .. } => 2,
            InSpec::MsgCoinSigned { .. } => 3,
            InSpec::MsgCoinPredicate { .. } => 4,
            InSpec::MsgDataSigned { .. } => 5,
            InSpec::MsgDataPredicate { .. } => 6,
        }
    }
}

#[derive(Debug, Clone, PartialEq, Eq, Hash, Serialize, Deserialize)]
pub enum OutSpec {
    Coin { to: B32, amount: u64, asset: B32 },
    Contract { input_index: u16, balance_root: B32, state_root: B32 },
    Change { to: B32, amount: u64, asset: B32 },
    Variable { to: B32, amount: u64, asset: B32 },
    ContractCreated { contract: B32, state_root: B32 },
}

impl OutSpec {
    pub fn kind(&self) -> u8 {
        match self {
            OutSpec::Coin { .. } => 0,
            OutSpec::Contract { .. } => 1,
            OutSpec::Change { .. } => 2,
            OutSpec::Variable { .. } => 3,
            OutSpec::ContractCreated { .. } => 4,
        }
    }
}

#[derive(Debug, Clone, PartialEq, Eq, Hash, Serialize, Deserialize)]
pub enum PurposeSpec {
    Consensus { wit: u16, checksum: B32 },
    StateTransition { root: B32 },
}

#[derive(Debug, Clone, PartialEq, Eq, Hash, Serialize, Deserialize)]
pub enum BodySpec {
    Script { gas_limit: u64, receipts_root: B32, script: HexBytes, data: HexBytes },
    Create { wit: u16, salt: B32, slots: Vec<(B32, B32)> },
    Upgrade(PurposeSpec),
    Upload { root: B32, wit: u16, sub_idx: u16, sub_n: u16, proof: Vec<B32> },
    Blob { id: B32, wit: u16 },
}

impl BodySpec {
    pub fn kind(&self) -> u8 {
        match self {
            BodySpec::Script { .. } => 0,
            BodySpec::Create { .. } => 1,
            BodySpec::Upgrade(_) => 3,
            BodySpec::Upload { .. } => 4,
            BodySpec::Blob { .. } => 5,
        }
    }
}

#[derive(Debug, Clone, PartialEq, Eq, Hash, Serialize, Deserialize)]
pub struct TxSpec {
    pub body: BodySpec,
    pub pol: PolSpec,
    pub inputs: Vec<InSpec>,
    pub outputs: Vec<OutSpec>,
    pub witnesses: Vec<HexBytes>,
}

#[derive(Debug, Clone, PartialEq, Eq, Hash, Serialize, Deserialize)]
pub struct MintSpec {
    pub txp: TxpSpec,
    pub in_utxo: UtxoSpec,
    pub in_balance_root: B32,
    pub in_state_root: B32,
    pub in_txp: TxpSpec,
    pub contract: B32,
    pub out_input_index: u16,
    pub out_balance_root: B32,
    pub out_state_root: B32,
    pub amount: u64,
    pub asset: B32,
    pub gas_price: u64,
}

#[derive(Debug, Clone, PartialEq, Eq, Hash, Serialize, Deserialize)]
pub enum AnyTx {
    Charge(TxSpec),
    Mint(MintSpec),
}

#[derive(Debug, Clone, PartialEq, Eq, Hash, Serialize, Deserialize)]
pub enum ReceiptSpec {
    Call { id: B32, to: B32, amount: u64, asset: B32, gas: u64, a: u64, b: u64, pc: u64, is: u64 },
    Return { id: B32, val: u64, pc: u64, is: u64 },
    ReturnData { id: B32, ptr: u64, pc: u64, is: u64, data: HexBytes },
    Panic { id: B32, reason: u8, instr: u32, pc: u64, is: u64, contract: Option<B32> },
    Revert { id: B32, ra: u64, pc: u64, is: u64 },
    Log { id: B32, ra: u64, rb: u64, rc: u64, rd: u64, pc: u64, is: u64 },
    LogData { id: B32, ra: u64, rb: u64, ptr: u64, pc: u64, is: u64, data: HexBytes },
    Transfer { id: B32, to: B32, amount: u64, asset: B32, pc: u64, is: u64 },
    TransferOut { id: B32, to: B32, amount: u64, asset: B32, pc: u64, is: u64 },
    ScriptResult { result: u64, gas_used: u64 },
    MessageOut { sender: B32, recipient: B32, amount: u64, nonce: B32, data: HexBytes },
    Mint { sub_id: B32, contract: B32, val: u64, pc: u64, is: u64 },
    Burn { sub_id: B32, contract: B32, val: u64, pc: u64, is: u64 },
}

// ------------------------------------------------------------------ builders

impl PolSpec {
    pub fn build(&self) -> Policies {
        let mut p = Policies::new();
        let types = [
            PolicyType::Tip,
            PolicyType::WitnessLimit,
            PolicyType::Maturity,
            PolicyType::MaxFee,
            PolicyType::Expiration,
            PolicyType::Owner,
        ];
        for (i, t) in types.iter().enumerate() {
            if self.mask & (1 << i) != 0 {
                p.set(*t, Some(self.vals[i]));
            }
        }
        p
    }
}

impl UtxoSpec {
    pub fn build(&self) -> UtxoId {
        UtxoId::new(Bytes32::from(self.0 .0), self.1)
    }
}
impl TxpSpec {
    pub fn build(&self) -> TxPointer {
        TxPointer::new(self.0.into(), self.1)
    }
}

impl InSpec {
    pub fn build(&self) -> Input {
        match self.clone() {
            InSpec::CoinSigned { utxo, owner, amount, asset, txp, wit } => {
                Input::coin_signed(utxo.build(), owner.into(), amount, asset.into(), txp.build(), wit)
            }
            InSpec::CoinPredicate { utxo, owner, amount, asset, txp, gas, predicate, pdata } => Input::coin_predicate(
                utxo.build(),
                owner.into(),
                amount,
                asset.into(),
                txp.build(),
                gas,
                predicate.0,
                pdata.0,
            ),
            InSpec::Contract { utxo, balance_root, state_root, txp, contract } => {
                Input::contract(utxo.build(), balance_root.into(), state_root.into(), txp.build(), contract.into())
            }
            InSpec::MsgCoinSigned { sender, recipient, amount, nonce, wit } => {
                Input::message_coin_signed(sender.into(), recipient.into(), amount, nonce.into(), wit)
            }
            InSpec::MsgCoinPredicate { sender, recipient, amount, nonce, gas, predicate, pdata } => {
                Input::message_coin_predicate(sender.into(), recipient.into(), amount, nonce.into(), gas, predicate.0, pdata.0)
            }
            InSpec::MsgDataSigned { sender, recipient, amount, nonce, wit, data } => {
                Input::message_data_signed(sender.into(), recipient.into(), amount, nonce.into(), wit, data.0)
            }
            InSpec::MsgDataPredicate { sender, recipient, amount, nonce, gas, data, predicate, pdata } => {
                Input::message_data_predicate(sender.into(), recipient.into(), amount, nonce.into(), gas, data.0, predicate.0, pdata.0)
            }
        }
    }
}

impl OutSpec {
    pub fn build(&self) -> Output {
        match self.clone() {
            OutSpec::Coin { to, amount, asset } => Output::coin(to.into(), amount, asset.into()),
            OutSpec::Contract { input_index, balance_root, state_root } => {
                Output::contract(input_index, balance_root.into(), state_root.into())
            }
            OutSpec::Change { to, amount, asset } => Output::change(to.into(), amount, asset.into()),
            OutSpec::Variable { to, amount, asset } => Output::variable(to.into(), amount, asset.into()),
            OutSpec::ContractCreated { contract, state_root } => Output::contract_created(contract.into(), state_root.into()),
        }
    }
}

impl PurposeSpec {
    pub fn build(&self) -> UpgradePurpose {
        match self.clone() {
            PurposeSpec::Consensus { wit, checksum } => UpgradePurpose::ConsensusParameters { witness_index: wit, checksum: checksum.into() },
            PurposeSpec::StateTransition { root } => UpgradePurpose::StateTransition { root: root.into() },
        }
    }
}

impl TxSpec {
    pub fn build(&self) -> Transaction {
        let pol = self.pol.build();
        let ins: Vec<Input> = self.inputs.iter().map(|i| i.build()).collect();
        let outs: Vec<Output> = self.outputs.iter().map(|o| o.build()).collect();
        let wits: Vec<Witness> = self.witnesses.iter().map(|w| Witness::from(w.0.clone())).collect();
        match self.body.clone() {
            BodySpec::Script { gas_limit, receipts_root, script, data } => {
                let mut t = Transaction::script(gas_limit, script.0, data.0, pol, ins, outs, wits);
                *field::ReceiptsRoot::receipts_root_mut(&mut t) = receipts_root.into();
                t.into()
            }
            BodySpec::Create { wit, salt, slots } => {
                let slots = slots.into_iter().map(|(k, v)| StorageSlot::new(k.into(), v.into())).collect();
                Transaction::create(wit, pol, salt.into(), slots, ins, outs, wits).into()
            }
            BodySpec::Upgrade(p) => Transaction::upgrade(p.build(), pol, ins, outs, wits).into(),
            BodySpec::Upload { root, wit, sub_idx, sub_n, proof } => Transaction::upload(
                UploadBody {
                    root: root.into(),
                    witness_index: wit,
                    subsection_index: sub_idx,
                    subsections_number: sub_n,
                    proof_set: proof.into_iter().map(Into::into).collect(),
                },
                pol,
                ins,
                outs,
                wits,
            )
            .into(),
            BodySpec::Blob { id, wit } => Transaction::blob(BlobBody { id: id.into(), witness_index: wit }, pol, ins, outs, wits).into(),
        }
    }
}

impl MintSpec {
    pub fn build(&self) -> Mint {
        Transaction::mint(
            self.txp.build(),
            InContract {
                utxo_id: self.in_utxo.build(),
                balance_root: self.in_balance_root.into(),
                state_root: self.in_state_root.into(),
                tx_pointer: self.in_txp.build(),
                contract_id: self.contract.into(),
            },
            OutContract { input_index: self.out_input_index, balance_root: self.out_balance_root.into(), state_root: self.out_state_root.into() },
            self.amount,
            self.asset.into(),
            self.gas_price,
        )
    }
}

impl AnyTx {
    pub fn build(&self) -> Transaction {
        match self {
            AnyTx::Charge(t) => t.build(),
            AnyTx::Mint(m) => m.build().into(),
        }
    }
    pub fn kind(&self) -> u8 {
        match self {
            AnyTx::Charge(t) => t.body.kind(),
            AnyTx::Mint(_) => 2,
        }
    }
}

impl ReceiptSpec {
    pub fn build(&self) -> Receipt {
        match self.clone() {
            ReceiptSpec::Call { id, to, amount, asset, gas, a, b, pc, is } => Receipt::call(id.into(), to.into(), amount, asset.into(), gas, a, b, pc, is),
            ReceiptSpec::Return { id, val, pc, is } => Receipt::ret(id.into(), val, pc, is),
            ReceiptSpec::ReturnData { id, ptr, pc, is, data } => Receipt::return_data(id.into(), ptr, pc, is, data.0),
            ReceiptSpec::Panic { id, reason, instr, pc, is, contract } => {
                Receipt::panic(id.into(), PanicInstruction::error(fuel_asm::PanicReason::from(reason), instr), pc, is)
                    .with_panic_contract_id(contract.map(Into::into))
            }
            ReceiptSpec::Revert { id, ra, pc, is } => Receipt::revert(id.into(), ra, pc, is),
            ReceiptSpec::Log { id, ra, rb, rc, rd, pc, is } => Receipt::log(id.into(), ra, rb, rc, rd, pc, is),
            ReceiptSpec::LogData { id, ra, rb, ptr, pc, is, data } => Receipt::log_data(id.into(), ra, rb, ptr, pc, is, data.0),
            ReceiptSpec::Transfer { id, to, amount, asset, pc, is } => Receipt::transfer(id.into(), to.into(), amount, asset.into(), pc, is),
            ReceiptSpec::TransferOut { id, to, amount, asset, pc, is } => Receipt::transfer_out(id.into(), to.into(), amount, asset.into(), pc, is),
            ReceiptSpec::ScriptResult { result, gas_used } => Receipt::script_result(ScriptExecutionResult::from(result), gas_used),
            ReceiptSpec::MessageOut { sender, recipient, amount, nonce, data } => {
                let digest = Output::message_digest(&data.0);
                Receipt::message_out_with_len(sender.into(), recipient.into(), amount, nonce.into(), data.0.len() as u64, digest, Some(data.0))
            }
            ReceiptSpec::Mint { sub_id, contract, val, pc, is } => Receipt::mint(sub_id.into(), contract.into(), val, pc, is),
            ReceiptSpec::Burn { sub_id, contract, val, pc, is } => Receipt::burn(sub_id.into(), contract.into(), val, pc, is),
        }
    }
    pub fn kind(&self) -> u8 {
        match self {
            ReceiptSpec::Call { .. } => 0,
            ReceiptSpec::Return { .. } => 1,
            ReceiptSpec::ReturnData { .. } => 2,
            ReceiptSpec::Panic { .. } => 3,
            ReceiptSpec::Revert { .. } => 4,
            ReceiptSpec::Log { .. } => 5,
            ReceiptSpec::LogData { .. } => 6,
            ReceiptSpec::Transfer { .. } => 7,
            ReceiptSpec::TransferOut { .. } => 8,
            ReceiptSpec::ScriptResult { .. } => 9,
            ReceiptSpec::MessageOut { .. } => 10,
            ReceiptSpec::Mint { .. } => 11,
            ReceiptSpec::Burn { .. } => 12,
        }
    }
}

// ------------------------------------------------------------------ strategies

pub fn pol_spec() -> impl Strategy<Value = PolSpec> {
    let u32w = || prop_oneof![0u64..8, any::<u32>().prop_map(|x| x as u64), Just(u32::MAX as u64)];
    (0u8..64, word(), word(), u32w(), word(), u32w(), u32w())
        .prop_map(|(mask, a, b, c, d, e, f)| (mask, [a, b, c, d, e, f]))
        .prop_map(|(mask, mut vals)| {
            // boundary bias for maturity / expiration / owner: u32::MAX appears via word() clipping
            for i in [2usize, 4, 5] {
                if vals[i] > u32::MAX as u64 {
                    vals[i] = u32::MAX as u64;
                }
            }
            PolSpec { mask, vals }
        })
}

pub fn utxo_spec() -> impl Strategy<Value = UtxoSpec> {
    (b32(), prop_oneof![0u16..4, any::<u16>()]).prop_map(|(a, b)| UtxoSpec(a, b))
}
pub fn txp_spec() -> impl Strategy<Value = TxpSpec> {
    (prop_oneof![0u32..4, any::<u32>()], prop_oneof![0u16..4, any::<u16>()]).prop_map(|(a, b)| TxpSpec(a, b))
}
fn wit_idx() -> impl Strategy<Value = u16> {
    prop_oneof![6 => 0u16..4, 1 => any::<u16>()]
}

pub fn in_spec_kind(kind: u8) -> BoxedStrategy<InSpec> {
    match kind {
        0 => (utxo_spec(), b32(), word(), b32(), txp_spec(), wit_idx())
            .prop_map(|(utxo, owner, amount, asset, txp, wit)| InSpec::CoinSigned { utxo, owner, amount, asset, txp, wit })
            .boxed(),
        1 => (utxo_spec(), b32(), word(), b32(), txp_spec(), word(), hexbytes_nonempty(), hexbytes())
            .prop_map(|(utxo, owner, amount, asset, txp, gas, predicate, pdata)| InSpec::CoinPredicate { utxo, owner, amount, asset, txp, gas, predicate, pdata })
            .boxed(),
        2 => (utxo_spec(), b32(), b32(), txp_spec(), b32())
            .prop_map(|(utxo, balance_root, state_root, txp, contract)| InSpec::Contract { utxo, balance_root, state_root, txp, contract })
            .boxed(),
        3 => (b32(), b32(), word(), b32(), wit_idx())
            .prop_map(|(sender, recipient, amount, nonce, wit)| InSpec::MsgCoinSigned { sender, recipient, amount, nonce, wit })
            .boxed(),
        4 => (b32(), b32(), word(), b32(), word(), hexbytes_nonempty(), hexbytes())
            .prop_map(|(sender, recipient, amount, nonce, gas, predicate, pdata)| InSpec::MsgCoinPredicate { sender, recipient, amount, nonce, gas, predicate, pdata })
            .boxed(),
        5 => (b32(), b32(), word(), b32(), wit_idx(), hexbytes_nonempty())
            .prop_map(|(sender, recipient, amount, nonce, wit, data)| InSpec::MsgDataSigned { sender, recipient, amount, nonce, wit, data })
            .boxed(),
        _ => (b32(), b32(), word(), b32(), word(), hexbytes_nonempty(), hexbytes_nonempty(), hexbytes())
            .prop_map(|(sender, recipient, amount, nonce, gas, data, predicate, pdata)| InSpec::MsgDataPredicate { sender, recipient, amount, nonce, gas, data, predicate, pdata })
            .boxed(),
    }
}

pub fn in_spec() -> impl Strategy<Value = InSpec> {
    (0u8..7).prop_flat_map(in_spec_kind)
}

pub fn out_spec() -> impl Strategy<Value = OutSpec> {
    prop_oneof![
        (b32(), word(), b32()).prop_map(|(to, amount, asset)| OutSpec::Coin { to, amount, asset }),
        (prop_oneof![0u16..4, any::<u16>()], b32(), b32()).prop_map(|(input_index, balance_root, state_root)| OutSpec::Contract { input_index, balance_root, state_root }),
        (b32(), word(), b32()).prop_map(|(to, amount, asset)| OutSpec::Change { to, amount, asset }),
        (b32(), word(), b32()).prop_map(|(to, amount, asset)| OutSpec::Variable { to, amount, asset }),
        (b32(), b32()).prop_map(|(contract, state_root)| OutSpec::ContractCreated { contract, state_root }),
    ]
}

pub fn body_spec_kind(kind: u8) -> BoxedStrategy<BodySpec> {
    match kind {
        0 => (word(), b32(), hexbytes(), hexbytes())
            .prop_map(|(gas_limit, receipts_root, script, data)| BodySpec::Script { gas_limit, receipts_root, script, data })
            .boxed(),
        1 => (wit_idx(), b32(), prop::collection::vec((b32(), b32()), 0..5))
            .prop_map(|(wit, salt, mut slots)| {
                // Transaction::create sorts the slots; keep the spec equal to what is built
                slots.sort();
                BodySpec::Create { wit, salt, slots }
            })
            .boxed(),
        3 => prop_oneof![
            (wit_idx(), b32()).prop_map(|(wit, checksum)| PurposeSpec::Consensus { wit, checksum }),
            b32().prop_map(|root| PurposeSpec::StateTransition { root }),
        ]
        .prop_map(BodySpec::Upgrade)
        .boxed(),
        4 => (b32(), wit_idx(), any::<u16>(), any::<u16>(), prop::collection::vec(b32(), 0..9))
            .prop_map(|(root, wit, sub_idx, sub_n, proof)| BodySpec::Upload { root, wit, sub_idx, sub_n, proof })
            .boxed(),
        _ => (b32(), wit_idx()).prop_map(|(id, wit)| BodySpec::Blob { id, wit }).boxed(),
    }
}

fn counts() -> impl Strategy<Value = usize> {
    prop_oneof![8 => 0usize..=4, 2 => 5usize..=8, 1 => 9usize..=40]
}

pub fn tx_spec_kind(kind: u8) -> impl Strategy<Value = TxSpec> {
    (
        body_spec_kind(kind),
        pol_spec(),
        counts().prop_flat_map(|n| prop::collection::vec(in_spec(), n)),
        counts().prop_flat_map(|n| prop::collection::vec(out_spec(), n)),
        counts().prop_flat_map(|n| prop::collection::vec(hexbytes(), n)),
    )
        .prop_map(|(body, pol, inputs, outputs, witnesses)| TxSpec { body, pol, inputs, outputs, witnesses })
}

/// any chargeable transaction (5 kinds, flat)
pub fn tx_spec() -> impl Strategy<Value = TxSpec> {
    prop::sample::select(vec![0u8, 1, 3, 4, 5]).prop_flat_map(tx_spec_kind)
}

pub fn mint_spec() -> impl Strategy<Value = MintSpec> {
    (
        (txp_spec(), utxo_spec(), b32(), b32(), txp_spec(), b32()),
        (prop_oneof![0u16..3, any::<u16>()], b32(), b32(), word(), b32(), word()),
    )
        .prop_map(|((txp, in_utxo, in_balance_root, in_state_root, in_txp, contract), (out_input_index, out_balance_root, out_state_root, amount, asset, gas_price))| MintSpec {
            txp,
            in_utxo,
            in_balance_root,
            in_state_root,
            in_txp,
            contract,
            out_input_index,
            out_balance_root,
            out_state_root,
            amount,
            asset,
            gas_price,
        })
}

/// any transaction of the six kinds (flat over kinds)
pub fn any_tx() -> impl Strategy<Value = AnyTx> {
    prop_oneof![
        5 => tx_spec().prop_map(AnyTx::Charge),
        1 => mint_spec().prop_map(AnyTx::Mint),
    ]
}

pub fn receipt_spec() -> impl Strategy<Value = ReceiptSpec> {
    let w = word;
    prop_oneof![
        (b32(), b32(), w(), b32(), w(), w(), w(), w(), w()).prop_map(|(id, to, amount, asset, gas, a, b, pc, is)| ReceiptSpec::Call { id, to, amount, asset, gas, a, b, pc, is }),
        (b32(), w(), w(), w()).prop_map(|(id, val, pc, is)| ReceiptSpec::Return { id, val, pc, is }),
        (b32(), w(), w(), w(), hexbytes()).prop_map(|(id, ptr, pc, is, data)| ReceiptSpec::ReturnData { id, ptr, pc, is, data }),
        (b32(), any::<u8>(), any::<u32>(), w(), w(), prop::option::of(b32())).prop_map(|(id, reason, instr, pc, is, contract)| ReceiptSpec::Panic { id, reason, instr, pc, is, contract }),
        (b32(), w(), w(), w()).prop_map(|(id, ra, pc, is)| ReceiptSpec::Revert { id, ra, pc, is }),
        (b32(), w(), w(), w(), w(), w(), w()).prop_map(|(id, ra, rb, rc, rd, pc, is)| ReceiptSpec::Log { id, ra, rb, rc, rd, pc, is }),
        (b32(), w(), w(), w(), w(), w(), hexbytes()).prop_map(|(id, ra, rb, ptr, pc, is, data)| ReceiptSpec::LogData { id, ra, rb, ptr, pc, is, data }),
        (b32(), b32(), w(), b32(), w(), w()).prop_map(|(id, to, amount, asset, pc, is)| ReceiptSpec::Transfer { id, to, amount, asset, pc, is }),
        (b32(), b32(), w(), b32(), w(), w()).prop_map(|(id, to, amount, asset, pc, is)| ReceiptSpec::TransferOut { id, to, amount, asset, pc, is }),
        (prop_oneof![0u64..4, w()], w()).prop_map(|(result, gas_used)| ReceiptSpec::ScriptResult { result, gas_used }),
        (b32(), b32(), w(), b32(), hexbytes()).prop_map(|(sender, recipient, amount, nonce, data)| ReceiptSpec::MessageOut { sender, recipient, amount, nonce, data }),
        (b32(), b32(), w(), w(), w()).prop_map(|(sub_id, contract, val, pc, is)| ReceiptSpec::Mint { sub_id, contract, val, pc, is }),
        (b32(), b32(), w(), w(), w()).prop_map(|(sub_id, contract, val, pc, is)| ReceiptSpec::Burn { sub_id, contract, val, pc, is }),
    ]
}

/// layout signature of a tx spec: kinds and length classes (mod 8) — used for distinctness
pub fn layout_sig(t: &TxSpec) -> Vec<u8> {
    let mut s = vec![t.body.kind(), t.pol.mask];
    match &t.body {
        BodySpec::Script { script, data, .. } => {
            s.push((script.0.len() % 8) as u8);
            s.push((data.0.len() % 8) as u8);
        }
        BodySpec::Create { slots, .. } => s.push(slots.len() as u8),
        BodySpec::Upload { proof, .. } => s.push(proof.len() as u8),
        _ => {}
    }
    for i in &t.inputs {
        s.push(0x10 | i.kind());
        match i {
            InSpec::CoinPredicate { predicate, pdata, .. } | InSpec::MsgCoinPredicate { predicate, pdata, .. } => {
                s.push((predicate.0.len() % 8) as u8);
                s.push((pdata.0.len() % 8) as u8);
            }
            InSpec::MsgDataSigned { data, .. } => s.push((data.0.len() % 8) as u8),
            InSpec::MsgDataPredicate { data, predicate, pdata, .. } => {
                s.push((data.0.len() % 8) as u8);
                s.push((predicate.0.len() % 8) as u8);
                s.push((pdata.0.len() % 8) as u8);
            }
            _ => {}
        }
    }
    for o in &t.outputs {
        s.push(0x20 | o.kind());
    }
    for w in &t.witnesses {
        s.push(0x30 | (w.0.len() % 8) as u8);
    }
    s
}
