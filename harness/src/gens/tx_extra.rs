//! Extras on top of G-TX used by C01 / C02 / C06:
//!  * lattice enumerators (tx kind x policy mask, input/output/receipt kind x length class mod 8),
//!  * `Layout`: an independent, *annotated* re-statement of the canonical wire format of the
//!    G-TX specs (which word is a discriminant / length prefix / count / policy bits / padding),
//!    used by C02 to aim mutations and by C01 as a format differential,
//!  * consensus-parameter specs (`CpSpec`) built generically through serde_json::Value.
//!
//! Nothing in here depends on the engine, so `src/bin/mkcorpus.rs` can include the module tree.

use super::tx::*;
use super::word;
use proptest::prelude::*;
use serde::{Deserialize, Serialize};

// ------------------------------------------------------------------ value lattice helpers

/// boundary words used by the enumerated parts (index taken modulo the table length)
pub const WORDS: [u64; 12] = [
    0,
    1,
    7,
    255,
    256,
    u16::MAX as u64,
    u32::MAX as u64 - 1,
    u32::MAX as u64,
    1 << 32,
    i64::MAX as u64,
    u64::MAX - 1,
    u64::MAX,
];

pub fn lw(i: usize) -> u64 {
    WORDS[i % WORDS.len()]
}

pub fn lb32(i: usize) -> B32 {
    match i % 4 {
        0 => B32([0; 32]),
        1 => B32([0xff; 32]),
        2 => {
            let mut a = [0u8; 32];
            for (k, x) in a.iter_mut().enumerate() {
                *x = (k as u8).wrapping_mul(7).wrapping_add(i as u8);
            }
            B32(a)
        }
        _ => {
            let mut a = [0u8; 32];
            a[31] = 1 + (i as u8 & 0x7f);
            B32(a)
        }
    }
}

/// deterministic byte vector of length `n` without zero bytes (so padding stays recognisable)
pub fn lbytes(n: usize, salt: usize) -> HexBytes {
    HexBytes((0..n).map(|k| 1 + ((k * 31 + salt * 17) % 255) as u8).collect())
}

/// policy values for lattice index `i` (maturity / expiration kept <= u32::MAX: documented bound)
pub fn lpol(mask: u8, i: usize) -> PolSpec {
    let mut vals = [lw(i), lw(i + 3), lw(i + 1), lw(i + 5), lw(i + 2), lw(i + 7)];
    for k in [2usize, 4] {
        if vals[k] > u32::MAX as u64 {
            vals[k] = u32::MAX as u64 - (i as u64 % 3);
        }
    }
    PolSpec { mask, vals }
}

fn lutxo(i: usize) -> UtxoSpec {
    UtxoSpec(lb32(i), [0u16, 1, 255, 256, u16::MAX][i % 5])
}
fn ltxp(i: usize) -> TxpSpec {
    TxpSpec([0u32, 1, u32::MAX, 1 << 16][i % 4], [0u16, 1, u16::MAX][i % 3])
}

/// byte length with `len % 8 == r`, `j` selects the multiple; never 0 when `nonempty`
pub fn len_of(r: usize, j: usize, nonempty: bool) -> usize {
    let n = r + 8 * [0usize, 1, 4][j % 3];
    if nonempty && n == 0 { 8 } else { n }
}

pub fn lat_input(kind: u8, r: [usize; 3], j: usize) -> InSpec {
    let i = j + r[0] + 3 * r[1] + 5 * r[2];
    let wit = [0u16, 1, 255, u16::MAX][i % 4];
    match kind {
        0 => InSpec::CoinSigned { utxo: lutxo(i), owner: lb32(i + 1), amount: lw(i), asset: lb32(i + 2), txp: ltxp(i), wit },
        1 => InSpec::CoinPredicate {
            utxo: lutxo(i),
            owner: lb32(i + 1),
            amount: lw(i),
            asset: lb32(i + 2),
            txp: ltxp(i),
            gas: lw(i + 4),
            predicate: lbytes(len_of(r[0], j, true), 1),
            pdata: lbytes(len_of(r[1], j + 1, false), 2),
        },
        2 => InSpec::Contract { utxo: lutxo(i), balance_root: lb32(i), state_root: lb32(i + 1), txp: ltxp(i), contract: lb32(i + 2) },
        3 => InSpec::MsgCoinSigned { sender: lb32(i), recipient: lb32(i + 1), amount: lw(i), nonce: lb32(i + 2), wit },
        4 => InSpec::MsgCoinPredicate {
            sender: lb32(i),
            recipient: lb32(i + 1),
            amount: lw(i),
            nonce: lb32(i + 2),
            gas: lw(i + 4),
            predicate: lbytes(len_of(r[0], j, true), 3),
            pdata: lbytes(len_of(r[1], j + 1, false), 4),
        },
        5 => InSpec::MsgDataSigned { sender: lb32(i), recipient: lb32(i + 1), amount: lw(i), nonce: lb32(i + 2), wit, data: lbytes(len_of(r[0], j, true), 5) },
        _ => InSpec::MsgDataPredicate {
            sender: lb32(i),
            recipient: lb32(i + 1),
            amount: lw(i),
            nonce: lb32(i + 2),
            gas: lw(i + 4),
            data: lbytes(len_of(r[0], j, true), 6),
            predicate: lbytes(len_of(r[1], j + 1, true), 7),
            pdata: lbytes(len_of(r[2], j + 2, false), 8),
        },
    }
}

/// number of byte-vector fields of an input kind
pub fn input_vec_fields(kind: u8) -> usize {
    match kind {
        1 | 4 => 2,
        5 => 1,
        6 => 3,
        _ => 0,
    }
}

/// every (input kind x length class mod 8 of each of its byte-vector fields x 3 magnitudes)
pub fn lattice_inputs(mut f: impl FnMut(InSpec) -> bool) {
    for kind in 0u8..7 {
        let nf = input_vec_fields(kind);
        let combos = 8usize.pow(nf as u32);
        for c in 0..combos {
            let r = [c % 8, (c / 8) % 8, (c / 64) % 8];
            for j in 0..3 {
                if !f(lat_input(kind, r, j)) {
                    return;
                }
            }
        }
    }
}

pub fn lat_output(kind: u8, i: usize) -> OutSpec {
    match kind {
        0 => OutSpec::Coin { to: lb32(i), amount: lw(i), asset: lb32(i + 1) },
        1 => OutSpec::Contract { input_index: [0u16, 1, 255, u16::MAX][i % 4], balance_root: lb32(i), state_root: lb32(i + 1) },
        2 => OutSpec::Change { to: lb32(i), amount: lw(i), asset: lb32(i + 1) },
        3 => OutSpec::Variable { to: lb32(i), amount: lw(i), asset: lb32(i + 1) },
        _ => OutSpec::ContractCreated { contract: lb32(i), state_root: lb32(i + 1) },
    }
}

pub fn lattice_outputs(mut f: impl FnMut(OutSpec) -> bool) {
    for kind in 0u8..5 {
        for i in 0..12 {
            if !f(lat_output(kind, i)) {
                return;
            }
        }
    }
}

pub fn lat_receipt(kind: u8, n: usize, i: usize) -> ReceiptSpec {
    let (a, b, c) = (lb32(i), lb32(i + 1), lb32(i + 2));
    let w = |k: usize| lw(i + k);
    match kind {
        0 => ReceiptSpec::Call { id: a, to: b, amount: w(0), asset: c, gas: w(1), a: w(2), b: w(3), pc: w(4), is: w(5) },
        1 => ReceiptSpec::Return { id: a, val: w(0), pc: w(1), is: w(2) },
        2 => ReceiptSpec::ReturnData { id: a, ptr: w(0), pc: w(1), is: w(2), data: lbytes(n, 9) },
        3 => ReceiptSpec::Panic {
            id: a,
            reason: [0u8, 1, 2, 0x2a, 0x7f, 0xff][i % 6],
            instr: [0u32, 1, 0x1000_0000, u32::MAX][i % 4],
            pc: w(1),
            is: w(2),
            contract: if i % 2 == 0 { None } else { Some(b) },
        },
        4 => ReceiptSpec::Revert { id: a, ra: w(0), pc: w(1), is: w(2) },
        5 => ReceiptSpec::Log { id: a, ra: w(0), rb: w(1), rc: w(2), rd: w(3), pc: w(4), is: w(5) },
        6 => ReceiptSpec::LogData { id: a, ra: w(0), rb: w(1), ptr: w(2), pc: w(3), is: w(4), data: lbytes(n, 10) },
        7 => ReceiptSpec::Transfer { id: a, to: b, amount: w(0), asset: c, pc: w(1), is: w(2) },
        8 => ReceiptSpec::TransferOut { id: a, to: b, amount: w(0), asset: c, pc: w(1), is: w(2) },
        9 => ReceiptSpec::ScriptResult { result: [0u64, 1, 2, 3, 4, u64::MAX][i % 6], gas_used: w(1) },
        10 => ReceiptSpec::MessageOut { sender: a, recipient: b, amount: w(0), nonce: c, data: lbytes(n, 11) },
        11 => ReceiptSpec::Mint { sub_id: a, contract: b, val: w(0), pc: w(1), is: w(2) },
        _ => ReceiptSpec::Burn { sub_id: a, contract: b, val: w(0), pc: w(1), is: w(2) },
    }
}

/// every (receipt kind x payload length class mod 8 x 3 magnitudes); kinds without payload get
/// the same number of value-lattice points
pub fn lattice_receipts(mut f: impl FnMut(ReceiptSpec) -> bool) {
    for kind in 0u8..13 {
        for r in 0..8 {
            for j in 0..3 {
                if !f(lat_receipt(kind, len_of(r, j, false), r * 3 + j)) {
                    return;
                }
            }
        }
    }
}

/// transaction of `kind` (0,1,3,4,5) with policy `mask`; `lc` (0..8) is the length class mod 8 of
/// its byte vectors, `i` the value-lattice index
pub fn lat_tx(kind: u8, mask: u8, lc: usize, i: usize) -> TxSpec {
    let body = match kind {
        0 => BodySpec::Script { gas_limit: lw(i), receipts_root: lb32(i), script: lbytes(len_of(lc, i, false), 12), data: lbytes(len_of((lc + 3) % 8, i + 1, false), 13) },
        1 => {
            let mut slots: Vec<(B32, B32)> = (0..(lc % 4)).map(|k| (lb32(2 + k * 4 + (i % 2)), lb32(k + i))).collect();
            slots.sort();
            slots.dedup_by(|a, b| a.0 == b.0);
            BodySpec::Create { wit: [0u16, 1, u16::MAX][i % 3], salt: lb32(i + 1), slots }
        }
        3 => BodySpec::Upgrade(if (lc + i) % 2 == 0 {
            PurposeSpec::Consensus { wit: [0u16, 3, u16::MAX][i % 3], checksum: lb32(i) }
        } else {
            PurposeSpec::StateTransition { root: lb32(i + 2) }
        }),
        4 => BodySpec::Upload {
            root: lb32(i),
            wit: [0u16, 2, u16::MAX][i % 3],
            sub_idx: [0u16, 1, u16::MAX][(i + 1) % 3],
            sub_n: [1u16, 2, u16::MAX][(i + 2) % 3],
            proof: (0..(lc % 5)).map(|k| lb32(k + i)).collect(),
        },
        _ => BodySpec::Blob { id: lb32(i + 3), wit: [0u16, 1, u16::MAX][i % 3] },
    };
    // inputs: two different kinds whose vector fields sit in class `lc`, outputs: two kinds
    let k1 = ((lc + i) % 7) as u8;
    let k2 = ((lc + i + 1 + (mask as usize % 5)) % 7) as u8;
    let inputs = match (lc + mask as usize) % 3 {
        0 => vec![],
        1 => vec![lat_input(k1, [lc, (lc + 1) % 8, (lc + 2) % 8], i)],
        _ => vec![lat_input(k1, [lc, (lc + 1) % 8, (lc + 2) % 8], i), lat_input(k2, [(lc + 5) % 8, lc, (lc + 7) % 8], i + 1)],
    };
    let outputs = (0..((lc + i) % 3)).map(|k| lat_output(((k + lc + mask as usize) % 5) as u8, i + k)).collect();
    let witnesses = (0..((lc + 1 + i) % 3)).map(|k| lbytes(len_of((lc + k * 3) % 8, i + k, false), 14 + k)).collect();
    TxSpec { body, pol: lpol(mask, i + lc), inputs, outputs, witnesses }
}

pub fn lat_mint(i: usize) -> MintSpec {
    MintSpec {
        txp: ltxp(i),
        in_utxo: lutxo(i + 1),
        in_balance_root: lb32(i),
        in_state_root: lb32(i + 1),
        in_txp: ltxp(i + 2),
        contract: lb32(i + 2),
        out_input_index: [0u16, 1, u16::MAX][i % 3],
        out_balance_root: lb32(i + 3),
        out_state_root: lb32(i),
        amount: lw(i),
        asset: lb32(i + 1),
        gas_price: lw(i + 6),
    }
}

/// every (tx kind x all 64 policy masks x length class mod 8), plus Mint (no policies) x 12 values
pub fn lattice_txs(mut f: impl FnMut(AnyTx) -> bool) {
    for kind in [0u8, 1, 3, 4, 5] {
        for mask in 0u8..64 {
            for lc in 0..8 {
                if !f(AnyTx::Charge(lat_tx(kind, mask, lc, mask as usize + lc))) {
                    return;
                }
            }
        }
    }
    for i in 0..12 {
        if !f(AnyTx::Mint(lat_mint(i))) {
            return;
        }
    }
}

/// policies with full-range owner (the canonical decoder bounds only maturity / expiration)
pub fn pol_spec_wide() -> impl Strategy<Value = PolSpec> {
    (0u8..64, [word(), word(), word(), word(), word(), word()]).prop_map(|(mask, mut vals)| {
        for i in [2usize, 4] {
            if vals[i] > u32::MAX as u64 {
                vals[i] &= u32::MAX as u64;
            }
        }
        PolSpec { mask, vals }
    })
}

// ------------------------------------------------------------------ annotated reference layout

#[derive(Clone, Copy, Debug, PartialEq, Eq, Hash, Serialize, Deserialize)]
pub enum MarkKind {
    /// enum discriminant / struct prefix word
    Disc,
    /// length prefix of a byte vector
    Len,
    /// element count of a vector of structures
    Count,
    /// policy bit mask word
    PolBits,
    /// u8 / u16 / u32 value left-padded to a word
    Small,
    /// full 64-bit value
    Word,
    /// trailing zero padding of a byte vector (1..=7 bytes)
    Pad,
}

#[derive(Clone, Copy, Debug)]
pub struct Mark {
    pub off: usize,
    pub len: usize,
    pub kind: MarkKind,
    /// for `Small`: number of significant low bytes (1, 2 or 4)
    pub width: u8,
}

#[derive(Clone, Debug, Default)]
pub struct Layout {
    pub bytes: Vec<u8>,
    pub marks: Vec<Mark>,
    /// length of the static part of the top-level value
    pub static_len: usize,
}

impl Layout {
    fn w(&mut self, kind: MarkKind, v: u64) {
        self.marks.push(Mark { off: self.bytes.len(), len: 8, kind, width: 8 });
        self.bytes.extend_from_slice(&v.to_be_bytes());
    }
    fn small(&mut self, v: u64, width: u8) {
        self.marks.push(Mark { off: self.bytes.len(), len: 8, kind: MarkKind::Small, width });
        self.bytes.extend_from_slice(&v.to_be_bytes());
    }
    fn b32(&mut self, b: &B32) {
        self.bytes.extend_from_slice(&b.0);
    }
    fn raw32(&mut self, b: &[u8; 32]) {
        self.bytes.extend_from_slice(b);
    }
    fn padded(&mut self, b: &[u8]) {
        self.bytes.extend_from_slice(b);
        let pad = (8 - b.len() % 8) % 8;
        if pad > 0 {
            self.marks.push(Mark { off: self.bytes.len(), len: pad, kind: MarkKind::Pad, width: 0 });
            self.bytes.extend(std::iter::repeat(0u8).take(pad));
        }
    }
    fn utxo(&mut self, u: &UtxoSpec) {
        self.b32(&u.0);
        self.small(u.1 as u64, 2);
    }
    fn txp(&mut self, t: &TxpSpec) {
        self.small(t.0 as u64, 4);
        self.small(t.1 as u64, 2);
    }

    pub fn marks_of(&self, kind: MarkKind) -> Vec<Mark> {
        self.marks.iter().copied().filter(|m| m.kind == kind).collect()
    }

    // ---- inputs
    fn input_static(&mut self, i: &InSpec) {
        use MarkKind::*;
        match i {
            InSpec::CoinSigned { utxo, owner, amount, asset, txp, wit } => {
                self.w(Disc, 0);
                self.utxo(utxo);
                self.b32(owner);
                self.w(Word, *amount);
                self.b32(asset);
                self.txp(txp);
                self.small(*wit as u64, 2);
                self.w(Word, 0);
                self.w(Len, 0);
                self.w(Len, 0);
            }
            InSpec::CoinPredicate { utxo, owner, amount, asset, txp, gas, predicate, pdata } => {
                self.w(Disc, 0);
                self.utxo(utxo);
                self.b32(owner);
                self.w(Word, *amount);
                self.b32(asset);
                self.txp(txp);
                self.small(0, 2);
                self.w(Word, *gas);
                self.w(Len, predicate.0.len() as u64);
                self.w(Len, pdata.0.len() as u64);
            }
            InSpec::Contract { utxo, balance_root, state_root, txp, contract } => {
                self.w(Disc, 1);
                self.utxo(utxo);
                self.b32(balance_root);
                self.b32(state_root);
                self.txp(txp);
                self.b32(contract);
            }
            InSpec::MsgCoinSigned { sender, recipient, amount, nonce, wit } => self.msg_static(sender, recipient, *amount, nonce, *wit, 0, 0, 0, 0),
            InSpec::MsgCoinPredicate { sender, recipient, amount, nonce, gas, predicate, pdata } => {
                self.msg_static(sender, recipient, *amount, nonce, 0, *gas, 0, predicate.0.len(), pdata.0.len())
            }
            InSpec::MsgDataSigned { sender, recipient, amount, nonce, wit, data } => self.msg_static(sender, recipient, *amount, nonce, *wit, 0, data.0.len(), 0, 0),
            InSpec::MsgDataPredicate { sender, recipient, amount, nonce, gas, data, predicate, pdata } => {
                self.msg_static(sender, recipient, *amount, nonce, 0, *gas, data.0.len(), predicate.0.len(), pdata.0.len())
            }
        }
    }
    #[allow(clippy::too_many_arguments)]
    fn msg_static(&mut self, sender: &B32, recipient: &B32, amount: u64, nonce: &B32, wit: u16, gas: u64, nd: usize, np: usize, npd: usize) {
        use MarkKind::*;
        self.w(Disc, 2);
        self.b32(sender);
        self.b32(recipient);
        self.w(Word, amount);
        self.b32(nonce);
        self.small(wit as u64, 2);
        self.w(Word, gas);
        self.w(Len, nd as u64);
        self.w(Len, np as u64);
        self.w(Len, npd as u64);
    }
    fn input_dynamic(&mut self, i: &InSpec) {
        match i {
            InSpec::CoinPredicate { predicate, pdata, .. } | InSpec::MsgCoinPredicate { predicate, pdata, .. } => {
                self.padded(&predicate.0);
                self.padded(&pdata.0);
            }
            InSpec::MsgDataSigned { data, .. } => self.padded(&data.0),
            InSpec::MsgDataPredicate { data, predicate, pdata, .. } => {
                self.padded(&data.0);
                self.padded(&predicate.0);
                self.padded(&pdata.0);
            }
            _ => {}
        }
    }
    fn input(&mut self, i: &InSpec) {
        self.input_static(i);
        self.input_dynamic(i);
    }

    fn output(&mut self, o: &OutSpec) {
        use MarkKind::*;
        match o {
            OutSpec::Coin { to, amount, asset } => {
                self.w(Disc, 0);
                self.b32(to);
                self.w(Word, *amount);
                self.b32(asset);
            }
            OutSpec::Contract { input_index, balance_root, state_root } => {
                self.w(Disc, 1);
                self.small(*input_index as u64, 2);
                self.b32(balance_root);
                self.b32(state_root);
            }
            OutSpec::Change { to, amount, asset } => {
                self.w(Disc, 2);
                self.b32(to);
                self.w(Word, *amount);
                self.b32(asset);
            }
            OutSpec::Variable { to, amount, asset } => {
                self.w(Disc, 3);
                self.b32(to);
                self.w(Word, *amount);
                self.b32(asset);
            }
            OutSpec::ContractCreated { contract, state_root } => {
                self.w(Disc, 4);
                self.b32(contract);
                self.b32(state_root);
            }
        }
    }

    fn witness(&mut self, w: &HexBytes) {
        self.w(MarkKind::Len, w.0.len() as u64);
        self.padded(&w.0);
    }

    fn pol_bits(&mut self, p: &PolSpec) {
        self.w(MarkKind::PolBits, (p.mask & 63) as u64);
    }
    fn pol_vals(&mut self, p: &PolSpec) {
        for k in 0..6 {
            if p.mask & (1 << k) != 0 {
                self.w(MarkKind::Word, p.vals[k]);
            }
        }
    }

    pub fn of_input(i: &InSpec) -> Layout {
        let mut l = Layout::default();
        l.input_static(i);
        l.static_len = l.bytes.len();
        l.input_dynamic(i);
        l
    }
    pub fn of_output(o: &OutSpec) -> Layout {
        let mut l = Layout::default();
        l.output(o);
        l.static_len = l.bytes.len();
        l
    }
    pub fn of_policies(p: &PolSpec) -> Layout {
        let mut l = Layout::default();
        l.pol_bits(p);
        l.static_len = l.bytes.len();
        l.pol_vals(p);
        l
    }
    pub fn of_witness(w: &HexBytes) -> Layout {
        let mut l = Layout::default();
        l.w(MarkKind::Len, w.0.len() as u64);
        l.static_len = 8;
        l.padded(&w.0);
        l
    }

    pub fn of_tx(t: &TxSpec) -> Layout {
        use MarkKind::*;
        let mut l = Layout::default();
        // static part: body statics, policy bits, three counts
        match &t.body {
            BodySpec::Script { gas_limit, receipts_root, script, data } => {
                l.w(Disc, 0);
                l.w(Word, *gas_limit);
                l.b32(receipts_root);
                l.w(Len, script.0.len() as u64);
                l.w(Len, data.0.len() as u64);
            }
            BodySpec::Create { wit, salt, slots } => {
                l.w(Disc, 1);
                l.small(*wit as u64, 2);
                l.b32(salt);
                l.w(Count, slots.len() as u64);
            }
            BodySpec::Upgrade(p) => {
                l.w(Disc, 3);
                match p {
                    PurposeSpec::Consensus { wit, checksum } => {
                        l.w(Disc, 0);
                        l.small(*wit as u64, 2);
                        l.b32(checksum);
                    }
                    PurposeSpec::StateTransition { root } => {
                        l.w(Disc, 1);
                        l.b32(root);
                    }
                }
            }
            BodySpec::Upload { root, wit, sub_idx, sub_n, proof } => {
                l.w(Disc, 4);
                l.b32(root);
                l.small(*wit as u64, 2);
                l.small(*sub_idx as u64, 2);
                l.small(*sub_n as u64, 2);
                l.w(Count, proof.len() as u64);
            }
            BodySpec::Blob { id, wit } => {
                l.w(Disc, 5);
                l.b32(id);
                l.small(*wit as u64, 2);
            }
        }
        l.pol_bits(&t.pol);
        l.w(Count, t.inputs.len() as u64);
        l.w(Count, t.outputs.len() as u64);
        l.w(Count, t.witnesses.len() as u64);
        l.static_len = l.bytes.len();
        // dynamic part
        match &t.body {
            BodySpec::Script { script, data, .. } => {
                l.padded(&script.0);
                l.padded(&data.0);
            }
            BodySpec::Create { slots, .. } => {
                for (k, v) in slots {
                    l.b32(k);
                    l.b32(v);
                }
            }
            BodySpec::Upload { proof, .. } => {
                for p in proof {
                    l.b32(p);
                }
            }
            _ => {}
        }
        l.pol_vals(&t.pol);
        for i in &t.inputs {
            l.input(i);
        }
        for o in &t.outputs {
            l.output(o);
        }
        for w in &t.witnesses {
            l.witness(w);
        }
        l
    }

    pub fn of_mint(m: &MintSpec) -> Layout {
        use MarkKind::*;
        let mut l = Layout::default();
        l.w(Disc, 2);
        l.txp(&m.txp);
        l.utxo(&m.in_utxo);
        l.b32(&m.in_balance_root);
        l.b32(&m.in_state_root);
        l.txp(&m.in_txp);
        l.b32(&m.contract);
        l.small(m.out_input_index as u64, 2);
        l.b32(&m.out_balance_root);
        l.b32(&m.out_state_root);
        l.w(Word, m.amount);
        l.b32(&m.asset);
        l.w(Word, m.gas_price);
        l.static_len = l.bytes.len();
        l
    }

    pub fn of_any_tx(t: &AnyTx) -> Layout {
        match t {
            AnyTx::Charge(t) => Layout::of_tx(t),
            AnyTx::Mint(m) => Layout::of_mint(m),
        }
    }

    /// receipts: payload digests come from `digest` (SHA-256 of the payload, computed by the
    /// caller with the `sha2` crate), nothing is taken from the encoder under test
    pub fn of_receipt(r: &ReceiptSpec, sha256: &dyn Fn(&[u8]) -> [u8; 32]) -> Layout {
        use MarkKind::*;
        let mut l = Layout::default();
        match r {
            ReceiptSpec::Call { id, to, amount, asset, gas, a, b, pc, is } => {
                l.w(Disc, 0);
                l.b32(id);
                l.b32(to);
                l.w(Word, *amount);
                l.b32(asset);
                for x in [gas, a, b, pc, is] {
                    l.w(Word, *x);
                }
            }
            ReceiptSpec::Return { id, val, pc, is } => {
                l.w(Disc, 1);
                l.b32(id);
                for x in [val, pc, is] {
                    l.w(Word, *x);
                }
            }
            ReceiptSpec::ReturnData { id, ptr, pc, is, data } => {
                l.w(Disc, 2);
                l.b32(id);
                l.w(Word, *ptr);
                l.w(Word, data.0.len() as u64);
                l.raw32(&sha256(&data.0));
                l.w(Word, *pc);
                l.w(Word, *is);
            }
            ReceiptSpec::Panic { id, instr, pc, is, .. } => {
                l.w(Disc, 3);
                l.b32(id);
                l.small(*instr as u64, 4);
                l.w(Word, *pc);
                l.w(Word, *is);
            }
            ReceiptSpec::Revert { id, ra, pc, is } => {
                l.w(Disc, 4);
                l.b32(id);
                for x in [ra, pc, is] {
                    l.w(Word, *x);
                }
            }
            ReceiptSpec::Log { id, ra, rb, rc, rd, pc, is } => {
                l.w(Disc, 5);
                l.b32(id);
                for x in [ra, rb, rc, rd, pc, is] {
                    l.w(Word, *x);
                }
            }
            ReceiptSpec::LogData { id, ra, rb, ptr, pc, is, data } => {
                l.w(Disc, 6);
                l.b32(id);
                l.w(Word, *ra);
                l.w(Word, *rb);
                l.w(Word, *ptr);
                l.w(Word, data.0.len() as u64);
                l.raw32(&sha256(&data.0));
                l.w(Word, *pc);
                l.w(Word, *is);
            }
            ReceiptSpec::Transfer { id, to, amount, asset, pc, is } | ReceiptSpec::TransferOut { id, to, amount, asset, pc, is } => {
                l.w(Disc, if matches!(r, ReceiptSpec::Transfer { .. }) { 7 } else { 8 });
                l.b32(id);
                l.b32(to);
                l.w(Word, *amount);
                l.b32(asset);
                l.w(Word, *pc);
                l.w(Word, *is);
            }
            ReceiptSpec::ScriptResult { result, gas_used } => {
                l.w(Disc, 9);
                // nested enum: Success / Revert / Panic are bare discriminants, everything else is
                // GenericFailure(value) = discriminant 3 followed by the value
                if *result <= 2 {
                    l.w(Disc, *result);
                } else {
                    l.w(Disc, 3);
                    l.w(Word, *result);
                }
                l.w(Word, *gas_used);
            }
            ReceiptSpec::MessageOut { sender, recipient, amount, nonce, data } => {
                l.w(Disc, 10);
                l.b32(sender);
                l.b32(recipient);
                l.w(Word, *amount);
                l.b32(nonce);
                l.w(Word, data.0.len() as u64);
                l.raw32(&sha256(&data.0));
            }
            ReceiptSpec::Mint { sub_id, contract, val, pc, is } | ReceiptSpec::Burn { sub_id, contract, val, pc, is } => {
                l.w(Disc, if matches!(r, ReceiptSpec::Mint { .. }) { 11 } else { 12 });
                l.b32(sub_id);
                l.b32(contract);
                for x in [val, pc, is] {
                    l.w(Word, *x);
                }
            }
        }
        l.static_len = l.bytes.len();
        l
    }
}

// ------------------------------------------------------------------ consensus parameters

/// Plain description of a `ConsensusParameters` value: versions + a stream of numbers that is
/// poured into the numeric leaves of the version's default serialised as `serde_json::Value`
/// (see `c06::build_cp`).
#[derive(Debug, Clone, PartialEq, Eq, Hash, Serialize, Deserialize)]
pub struct CpSpec {
    /// 1 | 2
    pub cp_version: u8,
    /// 1..=7
    pub gas_version: u8,
    /// 1 | 2
    pub script_version: u8,
    /// numbers for numeric leaves, used cyclically in leaf order (key-sorted DFS)
    pub nums: Vec<u64>,
    /// share (per 256) of numeric leaves that are replaced at all
    pub density: u8,
    /// bit k decides whether the k-th dependent cost (cyclically) is Light or Heavy
    pub dep_kinds: u64,
    pub ids: [B32; 2],
}

pub fn cp_spec() -> impl Strategy<Value = CpSpec> {
    (
        1u8..=2,
        1u8..=7,
        1u8..=2,
        prop::collection::vec(word(), 1..48),
        prop_oneof![Just(0u8), Just(255u8), any::<u8>()],
        any::<u64>(),
        [b32(), b32()],
    )
        .prop_map(|(cp_version, gas_version, script_version, nums, density, dep_kinds, ids)| CpSpec { cp_version, gas_version, script_version, nums, density, dep_kinds, ids })
}
