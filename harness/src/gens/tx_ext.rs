//! Extensions of G-TX used by C03 / C04 (kept out of `tx.rs`):
//!  * `make_precomputable` — fix-up of a spec so that `Cacheable::precompute` can succeed
//!    (Create: bytecode witness index in range; Upgrade/ConsensusParameters: the witness holds a
//!    postcard-encoded `ConsensusParameters` and the checksum is its SHA-256);
//!  * `any_tx_cacheable` — `any_tx()` with the fix-up applied to 3 of 4 cases;
//!  * `layout_tx` — chargeable transactions biased to mixed layouts (contract input between
//!    predicate inputs, all seven input kinds, many inputs, 7-byte scripts, empty vectors).

use super::tx::*;
use super::{bytes_lc, word};
use proptest::prelude::*;
use fuel_tx::ValidityError;
use sha2::{Digest, Sha256};

/// postcard bytes of a decodable `ConsensusParameters`
pub fn consensus_params_witness() -> Vec<u8> {
    postcard::to_allocvec(&fuel_tx::ConsensusParameters::standard()).expect("postcard")
}

pub fn sha256(parts: &[&[u8]]) -> [u8; 32] {
    let mut h = Sha256::new();
    for p in parts {
        h.update(p);
    }
    h.finalize().into()
}

/// Fix a spec up so that `precompute` has no reason to fail.
pub fn make_precomputable(mut t: TxSpec) -> TxSpec {
    match &mut t.body {
        BodySpec::Create { wit, .. } => {
            if t.witnesses.is_empty() {
                t.witnesses.push(HexBytes(vec![0x24, 0, 0, 0]));
            }
            if *wit as usize >= t.witnesses.len() {
                *wit = (t.witnesses.len() - 1) as u16;
            }
        }
        BodySpec::Upgrade(PurposeSpec::Consensus { wit, checksum }) => {
            if t.witnesses.is_empty() {
                t.witnesses.push(HexBytes(vec![]));
            }
            if *wit as usize >= t.witnesses.len() {
                *wit = (t.witnesses.len() - 1) as u16;
            }
            let w = consensus_params_witness();
            *checksum = B32(sha256(&[&w]));
            t.witnesses[*wit as usize] = HexBytes(w);
        }
        _ => {}
    }
    t
}

/// which `precompute` errors the spec explains (anything else is a failure)
pub fn precompute_error_explained(t: &AnyTx, e: &ValidityError) -> bool {
    let AnyTx::Charge(t) = t else { return false };
    match (&t.body, e) {
        (BodySpec::Create { wit, .. }, ValidityError::TransactionCreateBytecodeWitnessIndex) => *wit as usize >= t.witnesses.len(),
        (BodySpec::Upgrade(PurposeSpec::Consensus { wit, .. }), ValidityError::InputWitnessIndexBounds { index }) => {
            *index == *wit as usize && *wit as usize >= t.witnesses.len()
        }
        (BodySpec::Upgrade(PurposeSpec::Consensus { wit, checksum }), ValidityError::TransactionUpgradeConsensusParametersChecksumMismatch) => {
            t.witnesses.get(*wit as usize).is_some_and(|w| sha256(&[&w.0]) != checksum.0)
        }
        (BodySpec::Upgrade(PurposeSpec::Consensus { wit, checksum }), ValidityError::TransactionUpgradeConsensusParametersDeserialization) => {
            t.witnesses.get(*wit as usize).is_some_and(|w| sha256(&[&w.0]) == checksum.0 && w.0 != consensus_params_witness())
        }
        _ => false,
    }
}

/// any transaction of the six kinds; 3 of 4 chargeable ones are made precomputable
pub fn any_tx_cacheable() -> impl Strategy<Value = AnyTx> {
    (any_tx(), 0u8..4).prop_map(|(t, fix)| match t {
        AnyTx::Charge(t) if fix != 0 => AnyTx::Charge(make_precomputable(t)),
        other => other,
    })
}

/// chain ids, boundary-biased
pub fn chain_id() -> impl Strategy<Value = u64> {
    word()
}

// ------------------------------------------------------------------ layout-biased transactions

/// byte vectors whose length is mostly not a multiple of 8 (7 first)
pub fn odd_bytes(nonempty: bool) -> impl Strategy<Value = HexBytes> {
    prop_oneof![
        1 => prop::collection::vec(any::<u8>(), 7),
        2 => prop::sample::select(vec![1usize, 2, 3, 4, 5, 6, 9, 15, 17, 23, 31, 33, 63, 65])
            .prop_flat_map(|n| prop::collection::vec(any::<u8>(), n)),
        2 => bytes_lc(),
        1 => Just(vec![]),
    ]
    .prop_map(move |mut v| {
        if nonempty && v.is_empty() {
            v.push(0x24);
        }
        HexBytes(v)
    })
}

fn predicate_input() -> impl Strategy<Value = InSpec> {
    prop::sample::select(vec![1u8, 4, 6]).prop_flat_map(in_spec_kind)
}

fn contract_input() -> impl Strategy<Value = InSpec> {
    in_spec_kind(2)
}

/// input vectors with the layouts the design asks for
pub fn layout_inputs() -> impl Strategy<Value = Vec<InSpec>> {
    prop_oneof![
        // contract input(s) between predicate inputs, random extras around
        4 => (
            prop::collection::vec(in_spec(), 0..=2),
            prop::collection::vec(predicate_input(), 1..=3),
            prop::collection::vec(contract_input(), 1..=2),
            prop::collection::vec(predicate_input(), 1..=3),
            prop::collection::vec(in_spec(), 0..=2),
        )
            .prop_map(|(a, b, c, d, e)| a.into_iter().chain(b).chain(c).chain(d).chain(e).collect()),
        // all seven kinds, shuffled
        2 => (0u8..7).map(in_spec_kind).collect::<Vec<_>>().prop_shuffle(),
        // anything, 3..=8
        3 => prop::collection::vec(in_spec(), 3..=8),
        // anything, 0..=2 (incl. the empty vector)
        1 => prop::collection::vec(in_spec(), 0..=2),
        // many inputs
        1 => prop::collection::vec(in_spec(), 20..=40),
    ]
}

fn body_layout(kind: u8) -> BoxedStrategy<BodySpec> {
    match kind {
        0 => (word(), b32(), odd_bytes(false), odd_bytes(false))
            .prop_map(|(gas_limit, receipts_root, script, data)| BodySpec::Script { gas_limit, receipts_root, script, data })
            .boxed(),
        k => body_spec_kind(k),
    }
}

/// chargeable transaction of `kind` with a mixed layout; made precomputable in 7 of 8 cases
pub fn layout_tx_kind(kind: u8) -> impl Strategy<Value = TxSpec> {
    (
        body_layout(kind),
        pol_spec(),
        layout_inputs(),
        prop_oneof![4 => prop::collection::vec(out_spec(), 0..=6), 1 => prop::collection::vec(out_spec(), 7..=40)],
        prop_oneof![4 => prop::collection::vec(odd_bytes(false), 0..=5), 1 => prop::collection::vec(odd_bytes(false), 6..=40)],
        0u8..8,
    )
        .prop_map(|(body, pol, inputs, outputs, witnesses, fix)| {
            let t = TxSpec { body, pol, inputs, outputs, witnesses };
            if fix != 0 { make_precomputable(t) } else { t }
        })
}

pub fn layout_tx() -> impl Strategy<Value = TxSpec> {
    prop::sample::select(vec![0u8, 0, 1, 3, 4, 5]).prop_flat_map(layout_tx_kind)
}

/// six kinds: 6 chargeable (script twice) : 1 mint
pub fn layout_any_tx() -> impl Strategy<Value = AnyTx> {
    prop_oneof![
        8 => layout_tx().prop_map(AnyTx::Charge),
        1 => mint_spec().prop_map(AnyTx::Mint),
    ]
}
