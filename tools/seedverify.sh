#!/bin/bash
# tools/seedverify.sh <worktree> <SEEDn> <crate> [crate ...]
# Confirms a seeded change in its scratch worktree (never in /repo):
#   1. patch applies and the listed crates' existing tests pass with it,
#   2. the demonstration fails with the change,
#   3. the demonstration passes without it.
# Prints VERIFY lines; exit 0 iff all three hold. Uses one shared target dir for all seeds.
set -u
WT="$1"; S="$2"; shift 2
export CARGO_TARGET_DIR="${SEED_TARGET_DIR:-/tmp/seedverify_target}"
export CARGO_NET_OFFLINE=true
cd "$WT" || exit 2
git checkout -q -- . ; git clean -fdq -e 'SEED*' -e target
if ! git apply --check "$S/patch.diff"; then echo "VERIFY $WT/$S patch does not apply"; exit 2; fi
git apply "$S/patch.diff"
OK=1
for C in "$@"; do
  if [ "$C" = "fuel-vm" ]; then ARGS="-p fuel-vm --lib"; else ARGS="-p $C"; fi
  # nextest with retries: one fuel-vm test has a 5 s wall-clock timeout and flakes under load
  OUT="$(cargo nextest run $ARGS --offline --retries 3 --no-fail-fast 2>&1)"
  RC=$?
  RES="$(echo "$OUT" | grep -E 'Summary' | tail -1 | cut -c1-200)"
  if [ $RC -ne 0 ]; then
    FAILED="$(echo "$OUT" | grep -E '^\s+(FAIL|TIMEOUT|SIGABRT|SIGSEGV) ' | awk '{print $NF}' | sort -u | tr '\n' ' ' | cut -c1-300)"
    # the one wall-clock-timeout test (5 s) fails under heavy load whatever the change: re-run it alone
    if [ "$(echo $FAILED)" = "tests::predicate::synchronous_estimate_predicates_respects_total_tx_gas_limit" ] && \
       cargo nextest run $ARGS --offline --retries 5 -E 'test(synchronous_estimate_predicates_respects_total_tx_gas_limit)' >/dev/null 2>&1; then
      echo "VERIFY $WT/$S tests-with-change crate=$C ok (timing test passed when re-run alone): $RES"
    else
      echo "VERIFY $WT/$S tests-with-change crate=$C FAILED: $RES :: $FAILED"; OK=0
    fi
  else
    echo "VERIFY $WT/$S tests-with-change crate=$C ok: $RES"
  fi
done
bash "$S/demo/run.sh" >/tmp/seedverify_demo.log 2>&1; RC1=$?
echo "VERIFY $WT/$S demo-with-change exit=$RC1 (want != 0)"
git checkout -q -- . ; git clean -fdq -e 'SEED*' -e target
bash "$S/demo/run.sh" >/tmp/seedverify_demo2.log 2>&1; RC2=$?
echo "VERIFY $WT/$S demo-without-change exit=$RC2 (want 0)"
git checkout -q -- . ; git clean -fdq -e 'SEED*' -e target
[ $RC1 -ne 0 ] && [ $RC2 -eq 0 ] && [ $OK -eq 1 ] && { echo "VERIFY $WT/$S CONFIRMED"; exit 0; }
echo "VERIFY $WT/$S NOT-CONFIRMED"; exit 1
