#!/usr/bin/env python3
"""Regenerates /verif/MANIFEST.json from tools/checks.json (one entry per implemented check)."""
import json, os, sys
root = os.path.dirname(os.path.dirname(os.path.abspath(__file__)))
checks = json.load(open(os.path.join(root, "tools", "checks.json")))
props = [json.loads(l) for l in open(os.path.join(root, "properties.jsonl")) if l.strip()]
ids = [p["id"] for p in props]
out_checks, na = [], []
for pid in ids:
    c = checks.get(pid)
    if c is None or c.get("not_applicable"):
        na.append({"property_id": pid, "reason": (c or {}).get("not_applicable", "check not built yet (design in DESIGN.md §3); nothing is claimed for it")})
        continue
    out_checks.append({
        "property_id": pid,
        "quick_cmd": f"./check {pid} quick",
        "thorough_cmd": f"./check {pid} thorough",
        "evidence_file": f"evidence/{pid}.json",
        "replay_cmd_template": f"./check {pid} --replay {{path}}",
        "engine": c.get("engine", "fvverif"),
        "level_claimed": {"category": "exploration", "text": c["text"], "design_ref": f"DESIGN.md §3 {pid}"},
        "level_note": c["note"],
        "technique": c["technique"],
    })
m = {
    "version": 1,
    "setup_cmd": "cd /verif/harness && CARGO_NET_OFFLINE=true cargo build --release --offline",
    "hooks": {
        "guard": "cargo feature fuellabs_fuel_vm_verif (off by default)",
        "enable": "the harness depends on /repo/fuel-crypto with features=[\"fuellabs_fuel_vm_verif\"] (harness/Cargo.toml); path dependencies on /repo/fuel-* rebuild from the working tree",
        "baseline_off_cmd": "cd /repo && cargo nextest run --workspace --no-fail-fast --test-threads 8 --offline || cargo test --workspace --no-fail-fast --offline",
        "source_commits": json.load(open(os.path.join(root, "tools", "hook_commits.json"))),
        "add_only": True,
    },
    "engines": [
        {"name": "fvverif", "path": "harness", "serves_properties": [c["property_id"] for c in out_checks],
         "kind_free_text": "Rust binary: proptest 1.11 TestRunner with fixed per-shard seeds (16 shards), enumerated sub-spaces, reference models, shrinking to JSON replay files"},
        {"name": "libfuzzer", "path": "fuzz", "serves_properties": ["C02", "C29"],
         "kind_free_text": "cargo-fuzz targets carrying the same oracles (thorough tier only)"},
    ],
    "checks": out_checks,
    "not_applicable": na,
    "notes": "Exit protocol: 0 held / 1 VIOLATION / 2 inconclusive or harness problem. Known findings: known_findings.jsonl (read-only at run time). All checks honour VERIF_SEED.",
}
json.dump(m, open(os.path.join(root, "MANIFEST.json"), "w"), indent=1)
print(f"{len(out_checks)} checks, {len(na)} not_applicable")
