#!/usr/bin/env python3
"""Writes seeded/<id>/meta.json from the table below (one entry per kept seeded change)."""
import json, os
root = os.path.dirname(os.path.dirname(os.path.abspath(__file__)))
ORIGIN = "independent sub-agent given only the property text and a scratch git worktree of /repo"
VER = "tools/seedverify.sh in the scratch worktree: patch applies; existing tests of the listed crates pass with the change (cargo nextest, retries for the one wall-clock-timeout test); demo fails with the change and passes without it"
T = {
 "C03-s1": ("C03", "Cacheable::precompute no longer drops the old cache before recomputing (all six kinds)", "precompute, then change a non-malleable field or the chain id, then precompute again", ["fuel-tx","fuel-vm"], [("C03","missed at first (exit 0); caught after the check gained 're-precompute after chain/content change'","ref-id:cache:mint:stale-after-precompute-with-other-chain")]),
 "C03-s2": ("C03", "Input::prepare_sign stops resetting predicate_gas_used of MessageDataPredicate (catch-all arm)", "a MessageDataPredicate input with differing predicate_gas_used", ["fuel-tx","fuel-vm"], [("C03","caught","spec-mut:meta:blob:malleable-changes-id:in.MsgDataPredicate.gas#chg")]),
 "C12-s1": ("C12", "delete_with_path_set removes the stale path after writing the rebuilt one", "delete of the absent all-zero key whose path ends in a placeholder at depth >= 2, followed by an operation through the removed node", ["fuel-merkle","fuel-tx","fuel-vm"], [("C12","caught","history:op-error:overwrite-same"),("C13","caught","reload:reload:proof-error")]),
 "C12-s2": ("C12", "from_set: BTreeMap replaced by sort_unstable + keep-last dedup", "a set with a repeated key, > 32 entries, and a layout the unstable sort reorders", ["fuel-merkle","fuel-tx","fuel-vm"], [("C12","caught","history:from_set-root-mismatch:duplicate-keys"),("C15","not caught (slot sets <= 24 entries, no duplicate keys); out of C15's scope","-")]),
 "C19-s1": ("C19", "base-asset-only input check refactored into a helper that ignores CoinPredicate", "a Create/Blob/Upload/Upgrade funded by a predicate coin of a non-base asset", ["fuel-tx","fuel-vm"], [("C19","caught","mutated:accepts-invalid:InputContainsNonBaseAsset")]),
 "C19-s2": ("C19", "deduct_max_fee_from_base_asset does nothing when there is no base-asset balance entry", "max_fee > 0 and no base-asset coin / message-coin input", ["fuel-vm"], [("C19","caught","gtx:accepts-invalid:BalanceInsufficient")]),
 "C23-s1": ("C23", "heap zeroing moved from allocation to reset(); rollback() not updated", "snapshot, allocate + write, rollback, allocate again without reset", ["fuel-vm"], [("C23","caught","flat-small:grow_heap:new-bytes-not-zero")]),
 "C23-s2": ("C23", "get_changes rewritten; position not advanced past changed runs", "rollback with >= 2 separate modified runs in one region", ["fuel-vm"], [("C23","caught","flat-small:rollback:not-equal-snapshot")]),
 "C04-s1": ("C04", "Script::precompute builds body metadata before dropping the old cache (stale script_data_offset)", "a Script with metadata whose script length changes, then precompute again", ["fuel-tx","fuel-vm"], [("C04","missed at first; caught after the check gained 're-precompute after layout change'","offsets:cached:stale-after-change-and-precompute:policies_offset:script"),("C05","not caught (GTF is exercised on freshly checked transactions)","-")]),
 "C04-s2": ("C04", "uncached outputs_offset_at uses idx * size(first output)", "no metadata, >= 3 outputs mixing ContractCreated (72 B) with 80-byte outputs", ["fuel-tx","fuel-vm"], [("C04","caught","offsets:offset:outputs_at:blob")]),
 "C14-s1": ("C14", "verify rejects proofs with exactly 256 side nodes (u8::try_from(len))", "two keys differing only in the last bit", ["fuel-merkle","fuel-tx"], [("C14","caught","proofs:inclusion:does-not-verify-with-stored-value")]),
 "C14-s2": ("C14", "empty-proof-set fast path placed before the leaf-claims-queried-key guard", "single-leaf tree and a forged exclusion proof whose leaf claims the queried key", ["fuel-merkle","fuel-tx"], [("C14","caught","proofs:mutation:inclusion-as-exclusion-for-other-key:exclusion-leaf:verdict-differs-from-reference:lib-accepts")]),
 "C18-s1": ("C18", "max_gas factored onto the free min_gas (ignores Upload's storage surcharge)", "an Upload with a non-empty bytecode witness and little witness allowance", ["fuel-tx","fuel-vm"], [("C18","caught","fee-gtx:fee:min-gas-gt-max-gas")]),
 "C18-s2": ("C18", "refund_fee adds min_gas and used_gas in u128; gas_to_fee's overflow expect no longer holds", "used_gas > u64::MAX - min_gas with a price near u64::MAX", ["fuel-tx","fuel-vm"], [("C18","caught","fee-gtx:fee:panic@fuel-tx/src/transaction/fee.rs:128")]),
 "C36-s1": ("C36", "LDC copies only the bytes present in the source, assuming a freshly grown stack is zero", "stack above $ssp dirtied and released, then LDC mode 0/1 reading past the end of the source", ["fuel-vm"], [("C36","missed at first; caught after the check gained 'LDC over a used-and-released stack'","instr-random:ldc0:bytes")]),
 "C36-s2": ("C36", "MemoryStorage read_zerofill starts the zero fill at a value index instead of a buffer index", "offset > 0, buffer longer than the remaining value, non-zero buffer contents", ["fuel-vm"], [("C36","caught","reads-lattice:BlobData:read_zerofill:not-zero-filled")]),
}
import sys
extra = os.path.join(root, "tools", "seedmeta_extra.json")
if os.path.exists(extra):
    for k, v in json.load(open(extra)).items():
        T[k] = (v["property"], v["change"], v["needs"], v["crates"], [tuple(x) for x in v["checks"]])
for name, (prop, change, needs, crates, checks) in T.items():
    d = os.path.join(root, "seeded", name)
    if not os.path.isdir(d):
        continue
    meta = {"property": prop, "origin": ORIGIN, "change": change, "needs_to_manifest": needs,
            "confirmed_by": VER, "crates_tested_with_change": crates,
            "checks_run": [{"check": c, "result": r, "key": k} for c, r, k in checks],
            "files": sorted(os.listdir(d))}
    json.dump(meta, open(os.path.join(d, "meta.json"), "w"), indent=1)
print(len(T), "entries")
