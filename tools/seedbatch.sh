#!/bin/bash
# tools/seedbatch.sh Cxx [Cyy...] : import /tmp/seed_Cxx/SEED{1,2} into seeded/ and run the property's check on each
cd /verif
for c in "$@"; do for n in 1 2; do
  [ -f /tmp/seed_$c/SEED$n/patch.diff ] || continue
  d=seeded/$c-s$n; mkdir -p $d; cp /tmp/seed_$c/SEED$n/patch.diff $d/; cp -r /tmp/seed_$c/SEED$n/demo $d/ 2>/dev/null; cp /tmp/seed_$c/SEED$n/notes.md $d/ 2>/dev/null
  tools/seedcheck.sh $d $c 2>&1 | grep -E "^SEED|refusing|does not apply" | cut -c1-250
done; done
