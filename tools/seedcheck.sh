#!/bin/bash
# tools/seedcheck.sh <seeded-dir> <Cxx> [Cyy ...]
# Applies <seeded-dir>/patch.diff to /repo, runs the quick checks of the given properties,
# and ALWAYS restores /repo afterwards. Prints one line per check:
#   SEED <name> <Cxx> exit=<n> key=<first failing key or ->
# Never leaves the patch applied; refuses to run when /repo has uncommitted changes.
set -u
D="$(realpath "$1")"; shift
NAME="$(basename "$(dirname "$D")")/$(basename "$D")"
if [ -n "$(git -C /repo status --porcelain --untracked-files=no)" ]; then
  echo "refusing: /repo has uncommitted changes"; exit 2
fi
if ! git -C /repo apply --check "$D/patch.diff" 2>/dev/null; then
  echo "SEED $NAME patch does not apply"; exit 2
fi
git -C /repo apply "$D/patch.diff"
trap 'git -C /repo checkout -- . ; git -C /repo clean -fdq -- fuel-asm fuel-crypto fuel-merkle fuel-storage fuel-tx fuel-types fuel-vm fuel-compression fuel-derive 2>/dev/null' EXIT
HERE="$(cd "$(dirname "$0")/.." && pwd)"
BEFORE="$(ls "$HERE/replays" 2>/dev/null | sort)"
for P in "$@"; do
  OUT="$(cd "$HERE" && VERIF_SEED="${VERIF_SEED:-0}" timeout 3000 ./check "$P" quick 2>&1)"
  RC=$?
  KEY="$(echo "$OUT" | grep -m1 -E '^FAIL ' | sed -E 's/^FAIL part=([^ ]+) key=([^ ]+).*/\1:\2/' | cut -c1-160)"
  echo "SEED $NAME $P exit=$RC key=${KEY:--}"
  if [ $RC -eq 2 ]; then echo "$OUT" | tail -5 | cut -c1-300; fi
done
# replays written while the patch was applied are not regressions of the real tree
for f in $(ls "$HERE/replays" 2>/dev/null | sort); do
  if ! echo "$BEFORE" | grep -qx "$f"; then rm -f "$HERE/replays/$f"; fi
done
exit 0
