#!/usr/bin/env python3
"""Regenerates DESIGN.md §8.3 (between the CATCH-MATRIX markers) from seeded/*/meta.json and harness/mutants."""
import json, os, glob, re
root = os.path.dirname(os.path.dirname(os.path.abspath(__file__)))
rows = []
for d in sorted(glob.glob(os.path.join(root, "seeded", "*"))):
    m = os.path.join(d, "meta.json")
    if not os.path.exists(m):
        continue
    j = json.load(open(m))
    for c in j["checks_run"]:
        rows.append((os.path.basename(d), j["property"], j["change"], c["check"], c["result"], c["key"]))
out = ["### 8.3 Which checks catch which changes", "",
       "**Independent seeded changes** (`/verif/seeded/<id>/`: `patch.diff`, demonstration, `meta.json`). Each was produced by a fresh",
       "sub-agent that saw only the property text and a scratch worktree, was confirmed in a scratch worktree (compiles, existing tests of",
       "the touched crates and their dependents pass, demonstration fails with / passes without the change), then applied to `/repo`,",
       "checked with `./check <id> quick`, and undone. \"missed at first\" rows are where the check was strengthened afterwards.", "",
       "| seeded change | breaks | what changes | check | result | failing key |", "|---|---|---|---|---|---|"]
for r in rows:
    out.append("| %s | %s | %s | %s | %s | `%s` |" % (r[0], r[1], r[2].replace("|", "/"), r[3], r[4].replace("|", "/"), r[5]))
own = {}
other = {}
for r in rows:
    if r[3] == r[1]:
        own[r[0]] = r[4]
    elif r[4].startswith("caught"):
        other[r[0]] = r[3]
total = len({r[0] for r in rows})
first = sum(1 for v in own.values() if v.startswith("caught"))
later = sum(1 for v in own.values() if v.startswith("missed at first") and "caught after" in v)
neigh = sorted(k for k, v in own.items() if not v.startswith("caught") and "caught after" not in v and k in other)
none = sorted(k for k, v in own.items() if not v.startswith("caught") and "caught after" not in v and k not in other)
out += ["", f"Totals: {total} seeded changes kept; {first} caught by the property's own check as first built; "
        f"{later} missed at first and caught after the check was strengthened; "
        f"{len(neigh)} caught by a neighbouring property's check only ({', '.join(f'{k} by {other[k]}' for k in neigh)}); "
        f"{len(none)} not caught ({', '.join(none)}; reasons in the rows: declared don't-care, value outside the stated domain, ~100 MiB inputs).", ""]
mut = sorted(os.path.basename(p) for p in glob.glob(os.path.join(root, "harness", "mutants", "*.diff")))
by = {}
for m in mut:
    by.setdefault(m[:3], []).append(m[4:-5])
out += ["**Sensitivity mutants written while building each check** (`/verif/harness/mutants/<Cxx>-<name>.diff`; each was applied to a scratch",
        "copy of the repository, killed by the quick tier, and its shrunk case kept under `harness/regress/<Cxx>/` where it passes on the",
        "real tree):", ""]
for k in sorted(by):
    out.append(f"* **{k}** ({len(by[k])}): " + ", ".join(by[k]))
out.append("")
text = "\n".join(out)
p = os.path.join(root, "DESIGN.md")
s = open(p).read()
B, E = "<!-- CATCH-MATRIX-BEGIN -->", "<!-- CATCH-MATRIX-END -->"
if B in s:
    s = s[:s.index(B) + len(B)] + "\n" + text + s[s.index(E):]
else:
    s = s.rstrip("\n") + "\n\n" + B + "\n" + text + E + "\n"
open(p, "w").write(s)
print(total, "seeds,", len(mut), "mutants")
